"""C09 Bath correlation functions add linearly and carry consistent parameters.

Exhaustive enumeration of ALL addition histories up to a bound: every binary expression
tree over `+` (every grouping, every order, leaves with repetition) with <= 3 (quick) /
<= 4 (thorough) leaves, every in-place chain `x += y` (incl. `x += x`), every unit context
used for constructing the leaves and for executing the additions, for CorrelationFunction
and SpectralDensity.  Oracle: ledger of leaves (data and declared reorganisation energies of
the individually built components).

Construction-context dimension (added for the class "a component's data depend on the units
context it was CONSTRUCTED in"): every leaf carries its own construction unit; the product
(component ftype x construction unit x role in the expression) is complete:
  * 1 and 2 leaves (x, x+y, x+=y, x+=x): complete per-leaf product  (ftype x unit)^n,
  * 3 leaves: every uniform unit and every rotation of the unit list (a Latin square: every
    leaf position sees every unit, next to every combination of ftypes at the other positions);
    thorough: the complete per-leaf product over the first three units as well,
  * 4 leaves (thorough, core alphabet): uniform + rotations,
over ALL component ftypes that CorrelationFunction / SpectralDensity can build from parameters
(OverdampedBrownian, -HighTemperature, UnderdampedBrownian, Underdamped, B777, CP29).  A role
decides whether the component is used as constructed (right operand, in-place target) or is
re-generated from its parameter list (left operand of +, x+=x, copy()), so additivity is
evaluated both ways.  Three ledgers: (1) the operands' data AS CONSTRUCTED in the case (the
literal statement), (2) the same components built separately inside energy_units('1/cm'),
(3) per leaf, the component built in internal units from the converted parameters.

Three further complete sub-products (each described at its section below):
  LIST     composites built from a LIST of parameter dictionaries: every sequence (every order,
           with repetition) of components x every assignment of two temperatures to the
           positions x construction unit x route (parameters only / parameters + values);
           mixed temperatures must be refused wherever the odd component stands and whatever
           the correlation times before it are; legal lists are the sum of their components.
  FTSUM    sums of the frequency-domain parts (Even/Odd/FTCorrelationFunction, generic
           DFunction addition): every '+' tree over shared part objects, evaluated twice;
           ledger = the parts' data BEFORE any addition; operands unchanged; parities before
           and after use as operands.
  MEASURE  histories interleaving measure_reorganization_energy() (in every context) with
           every mutation route (+=, add_to_data, add_to_data2, x = x + y, x += x) of a
           correlation function / spectral density: measured == declared == measurement of
           a new object holding the same data, after every step.
  TIMEAXES every clause that involves the time axis itself - the reorganisation energy
           measured from the data (a time / frequency integral), the frequency-domain parts
           (their frequency axis is derived from the time axis) and the additivity of the data
           on the axis - on every TimeAxis of the product  step x window  (AXES): addition
           trees and in-place chains, list-built composites, sums of frequency-domain parts
           and measurement histories, each as a complete sub-product with the axis.
  DEGENERATE operands with zero reorganisation energy (analytic: vanishing data; value-defined:
           purely real data), at the common and at another temperature: every '+' tree /
           in-place chain containing one, refusals, measurement histories with every
           mutation route.
  FREQAXES spectral densities defined directly on a FrequencyAxis that need not be symmetric
           around w = 0 (one-sided, short / long negative branch, with / without the point
           w = 0) x grid: addition trees, in-place chains and measurement histories; the
           reorganisation energy recovered from the data against an independent reference
           (mc/refmodels/reorg_integral.py: the part of the integral the axis covers).
  CONVERT  composite spectral densities (every route, every assignment of declared
           temperatures to the components) x histories of conversion requests
           get_CorrelationFunction([temperature]): refusal of different temperatures at every
           request, temperature bookkeeping / data of the result, the spectral density and its
           operands unchanged by a request.
  REUSED-INPUTS  construction inputs the CALLER keeps and changes: families of 2 / 3 functions
           built one after another from ONE parameter dictionary / ONE list of dictionaries that
           is updated between (and after) the constructions x units context of the construction
           (every unit; spectral densities also outside any context) x every later use of every
           member (as it is, operand of every '+' tree, copy(), frequency-domain parts, every
           in-place route and the rebuilds that follow it).
  REFUSED  histories of additions through every public route (x = x + y, x += y, add_to_data,
           add_to_data2) that contain refused steps (other temperature: analytic / value-defined
           / composite operand; other axis), the exception caught by the caller: every
           observable of x after the refusal is what it was before, x goes on being the ledger
           sum of what was really added, in every later sum, copy and measurement.
"""
import itertools

import numpy

from mc import isolation
from mc.explore import run_grid, approx

LEVEL = "model_checking"
TOL = 1e-10

# leaf alphabets: physical values in 1/cm, fs, K
CF_LEAVES = {
    "a": dict(ftype="OverdampedBrownian", reorg=20.0, cortime=50.0, T=300.0, matsubara=20),
    "b": dict(ftype="OverdampedBrownian-HighTemperature", reorg=35.0, cortime=100.0, T=300.0),
    "c": dict(ftype="OverdampedBrownian", reorg=10.0, cortime=30.0, T=300.0),
    "v": "value-defined",
    "d": dict(ftype="OverdampedBrownian-HighTemperature", reorg=35.0, cortime=100.0, T=77.0),
    # components generated through a helper SpectralDensity
    "u": dict(ftype="UnderdampedBrownian", reorg=25.0, gamma=40.0, freq=400.0, T=300.0),
    "w": dict(ftype="Underdamped", reorg=15.0, gamma=30.0, freq=500.0, T=300.0),
    # probed only (see OPTIONAL)
    "x": dict(ftype="B777", reorg=102.0, gamma=30.0, T=300.0, alternative_form=False),
    "y": dict(ftype="B777", reorg=102.0, gamma=30.0, T=300.0, alternative_form=True),
    "z": dict(ftype="CP29", reorg=50.0, gamma=30.0, T=300.0),
    "o": dict(ftype="OverdampedBrownian_from_Specdens", reorg=20.0, cortime=50.0, T=300.0),
    # list-built composites only: another type with the correlation time of "a"
    "e": dict(ftype="OverdampedBrownian-HighTemperature", reorg=12.0, cortime=50.0, T=300.0),
    # DEGENERATE operands (sub-product DEGENERATE): components with zero reorganisation energy.
    # "n": analytic, data identically zero, but the LONGEST correlation (cut-off) time of the
    # alphabet; "r": value-defined, purely real data (a classical correlation function: Im C = 0,
    # hence reorganisation energy 0, Re C != 0); "m", "t": the same two kinds at another
    # temperature
    "n": dict(ftype="OverdampedBrownian", reorg=0.0, cortime=200.0, T=300.0, matsubara=20),
    "r": "value-defined",
    "m": dict(ftype="OverdampedBrownian-HighTemperature", reorg=0.0, cortime=100.0, T=77.0),
    "t": "value-defined",
    # REFUSED operands (sub-product REFUSED): a value-defined function at another temperature
    # with a non-zero reorganisation energy; a component at another temperature with the longest
    # cut-off time of all (member of the composite operand "D")
    "k": "value-defined",
    "f": dict(ftype="OverdampedBrownian", reorg=8.0, cortime=300.0, T=77.0, matsubara=20),
}
# value-defined leaves: declared reorganisation energy (1/cm), temperature, kind of data
VALUE_LEAVES = {"v": dict(reorg=15.0, T=300.0, real=False),
                "r": dict(reorg=0.0, T=300.0, real=True),
                "t": dict(reorg=0.0, T=77.0, real=True),
                "k": dict(reorg=18.0, T=77.0, real=False)}
SD_LEAVES = {
    "a": dict(ftype="OverdampedBrownian", reorg=20.0, cortime=50.0, T=300.0),
    "b": dict(ftype="UnderdampedBrownian", reorg=35.0, gamma=30.0, freq=300.0, T=300.0),
    "c": dict(ftype="OverdampedBrownian", reorg=10.0, cortime=30.0, T=300.0),
    "w": dict(ftype="Underdamped", reorg=15.0, gamma=30.0, freq=500.0, T=300.0),
    "p": dict(ftype="B777", reorg=102.0, gamma=30.0, T=300.0, alternative_form=True),
    "q": dict(ftype="CP29", reorg=50.0, gamma=30.0, T=300.0),
    # probed only (see OPTIONAL)
    "x": dict(ftype="B777", reorg=102.0, gamma=30.0, T=300.0, alternative_form=False),
    "o": dict(ftype="OverdampedBrownian_from_Specdens", reorg=20.0, cortime=50.0, T=300.0),
    "h": dict(ftype="OverdampedBrownian-HighTemperature", reorg=35.0, cortime=100.0, T=300.0),
    # DEGENERATE operands: zero reorganisation energy (data identically zero)
    "n": dict(ftype="OverdampedBrownian", reorg=0.0, cortime=200.0, T=300.0),
    "g": dict(ftype="UnderdampedBrownian", reorg=0.0, gamma=30.0, freq=300.0, T=300.0),
}
# leaves with zero declared reorganisation energy
DEGENERATE = {"cf": ["n", "r", "m", "t"], "sd": ["n", "g"]}
ENERGY_KEYS = ("reorg", "freq", "gamma")
NT, DT = 1500, 1.0

# TIME-AXIS dimension.  Every case carries its axis [number of points, step in fs]; a case
# without one lives on the axis (NT, DT) all sections were written for.  The product is
# step {0.25, 0.5, 1, 2} fs  x  window {1500, 2000} fs  (length = window / step): step, length
# and window vary independently of each other, so an integral that drops / doubles the step,
# counts points instead of time, or depends on the window shows up.  The shortest window is the
# one of the original axis: 15 correlation times of the slowest component (tail 3e-7).
STEPS = [1.0, 2.0, 0.5, 0.25]
WINDOWS = {"quick": [1500.0], "thorough": [1500.0, 2000.0]}
# quick: all steps on the original window + the longer window at the coarsest step (the
# window varies at a fixed step); thorough: the complete product
EXTRA_AXES = {"quick": [[1000, 2.0]], "thorough": []}


def axes(tier):
    """All time axes of the tier, the original one first."""
    out = []
    for win in WINDOWS[tier]:
        for st in STEPS:
            out.append([int(round(win / st)), st])
    for a in EXTRA_AXES[tier]:
        if a not in out:
            out.append(a)
    assert out[0] == [NT, DT]
    return out


# FREQUENCY-AXIS dimension (sub-product FREQAXES).  A SpectralDensity can be defined directly on
# a user-supplied FrequencyAxis; nothing says that such an axis is symmetric around w = 0 (the
# axes derived from a TimeAxis are: -N dw .. (N-1) dw, with the point w = 0).  A case carries
# "faxis": [kind, n, dw]: the positive branch has n points up to about n*dw; the kinds are the
# product  {negative branch: as long as the positive one / one eighth of it / absent / twice as
# long}  x  {grid contains the point w = 0 / is shifted by half a step}.
FAXIS_KINDS = {   # kind: (points of the negative branch as a multiple of n, offset in steps)
    "symmetric-with-zero": (1.0, 0.0), "symmetric-without-zero": (1.0, 0.5),
    "one-sided-from-zero": (0.0, 0.0), "one-sided-above-zero": (0.0, 0.5),
    "short-negative-branch-with-zero": (0.125, 0.0),
    "short-negative-branch-without-zero": (0.125, 0.5),
    "long-negative-branch-with-zero": (2.0, 0.0), "long-negative-branch-without-zero": (2.0, 0.5),
}
FAXIS_QUICK_KINDS = ["symmetric-with-zero", "symmetric-without-zero", "one-sided-from-zero",
                     "one-sided-above-zero", "short-negative-branch-with-zero",
                     "short-negative-branch-without-zero"]
# (n, dw): wmax = n*dw = 1.5 rad/fs (about 8000 1/cm) and 2.25 rad/fs
FAXIS_GRIDS = {"quick": [[750, 0.002], [1500, 0.001]],
               "thorough": [[750, 0.002], [1500, 0.001], [1500, 0.0015], [3000, 0.0005]]}


def faxes(tier):
    kinds = FAXIS_QUICK_KINDS if tier == "quick" else list(FAXIS_KINDS)
    return [[k, n, dw] for n, dw in FAXIS_GRIDS[tier] for k in kinds]


def freq_axis(spec):
    kind, n, dw = spec[0], int(spec[1]), float(spec[2])
    neg, off = FAXIS_KINDS[kind]
    nneg = int(round(neg * n))
    return isolation.qr().FrequencyAxis((-nneg + off) * dw, nneg + n, dw)


def axis_of(case):
    if case.get("faxis"):
        return freq_axis(case["faxis"])
    n, dt = case.get("axis") or (NT, DT)
    return isolation.qr().TimeAxis(0.0, int(n), float(dt))


def axis_suffix(case):
    """Key suffix of a case on another than the original axis."""
    if case.get("faxis"):
        k, n, dw = case["faxis"]
        return "/frequency-axis-%s-step-%g-points-%d" % (k, float(dw), int(n))
    a = case.get("axis")
    if not a or (int(a[0]), float(a[1])) == (NT, DT):
        return ""
    return "/time-axis-step-%gfs-length-%d" % (float(a[1]), int(a[0]))


def cf_measure_tolerance(names, ta):
    """Relative tolerance (class T, computed) of  measured == declared  for a sum of overdamped
    Brownian components (Im C(t) = -sum_i lam_i/tau_i exp(-t/tau_i)) on the axis ta:
      * truncation: the integral stops at the last point of the axis, the missing tail is
        lam_i exp(-t_last/tau_i) exactly;
      * quadrature: the error of the coarsest consistent rule on the grid, the second-order
        (trapezoidal) one, for an exponential:  lam_i [(h/tau_i)/(1-exp(-h/tau_i)) - h/(2 tau_i)
        - 1] <= lam_i (h/tau_i)^2/12  (the library's spline quadrature is far below it);
      * rounding 1e-10.
    Never above the 1e-3 the clause has always been checked with."""
    t_last = float(ta.data[-1])
    h = float(ta.step)
    tot, err = 0.0, 0.0
    for n in names:
        if declared_reorg("cf", n) == 0.0:
            continue        # data without an imaginary part: nothing to integrate
        sp = CF_LEAVES[n]
        tot += sp["reorg"]
        err += sp["reorg"] * (numpy.exp(-t_last / sp["cortime"])
                              + (h / sp["cortime"]) ** 2 / 12.0)
    if tot == 0.0:
        return 0.0
    return min(1e-3, err / tot + 1e-10)

# Alphabets.  CORE: the leaves the driver has always enumerated (+ UnderdampedBrownian for the
# correlation function); they go up to the maximal number of leaves.  EXT: the remaining ftypes
# that can be built from parameters (up to 3 leaves).  OPTIONAL: (class, ftype-variant)
# combinations which the library lists in `allowed_types` but cannot construct at all on the
# reference tree (CorrelationFunction B777/CP29: AttributeError 'energy_units';
# SpectralDensity B777 Renger form: numpy.math; no dispatch branch for
# OverdampedBrownian_from_Specdens / SpectralDensity -HighTemperature).  A component that cannot
# be built has no data to add: nothing of C09 applies.  They are probed (x, x+x, x+=x in every
# construction unit); as soon as one can be built in internal units on the tree under test it
# joins the alphabet up to two leaves and all oracles apply to it.
CORE = {"cf": ["a", "b", "c", "v", "u"], "sd": ["a", "b", "c"]}
EXT = {"cf": ["w"], "sd": ["w", "p", "q"]}
OPTIONAL = {"cf": ["x", "y", "z", "o"], "sd": ["x", "o", "h"]}
UNITS = {"quick": ["int", "1/cm", "eV"], "thorough": ["int", "1/cm", "eV", "THz"]}
LEGACY_PATTERNS = {"int": ["int"], "1/cm": ["1/cm"], "eV": ["eV"], "mixed": ["1/cm", "eV", "int"]}


def spec_of(cls, name):
    return (CF_LEAVES if cls == "cf" else SD_LEAVES)[name]


def ftype_of(cls, name):
    sp = spec_of(cls, name)
    return sp["ftype"] if isinstance(sp, dict) else "Value-defined"


def is_value(cls, name):
    return cls == "cf" and name in VALUE_LEAVES


def declared_reorg(cls, name):
    """Declared reorganisation energy of a leaf in 1/cm."""
    if is_value(cls, name):
        return VALUE_LEAVES[name]["reorg"]
    return spec_of(cls, name)["reorg"]


def _conv(val, unit):
    qr = isolation.qr()
    return float(qr.convert(val, "1/cm", to=unit))


def params_of(cls, name, unit, T=None):
    """Parameter dictionary of an analytic leaf, energies given in `unit`; T overrides the
    temperature of the alphabet entry."""
    p = dict(spec_of(cls, name))
    for k in ENERGY_KEYS:
        if k in p:
            p[k] = _conv(p[k], unit)
    if T is not None:
        p["T"] = float(T)
    return p


def make_leaf(cls, name, unit, ta, T=None):
    """Build one leaf under energy_units(unit), its parameters given in that unit."""
    qr = isolation.qr()
    if cls == "cf":
        if name in VALUE_LEAVES:
            vl = VALUE_LEAVES[name]
            t = ta.data
            if vl["real"]:
                # a classical correlation function: no imaginary part
                vals = (2e-5 * numpy.exp(-t / 250.0) * numpy.cos(t / 40.0)) + 0j
            else:
                vals = (3e-5 * numpy.exp(-t / 80.0) * numpy.cos(t / 37.0)
                        - 1j * 2e-5 * numpy.exp(-t / 60.0))
            with qr.energy_units(unit):
                return qr.CorrelationFunction(ta, dict(ftype="Value-defined",
                                                       reorg=_conv(vl["reorg"], unit),
                                                       T=vl["T"] if T is None else float(T)),
                                              values=vals)
        p = params_of(cls, name, unit, T)
        with qr.energy_units(unit):
            return qr.CorrelationFunction(ta, p)
    else:
        p = params_of(cls, name, unit, T)
        with qr.energy_units(unit):
            return qr.SpectralDensity(ta, p)


class Comp(object):
    """Record of a separately built component (ledger entry)."""

    def __init__(self, f):
        self.data = numpy.array(f.data, copy=True)
        self.lamb = float(f.lamb)
        self.temperature = float(getattr(f, "temperature", -1.0))
        self.cutoff_time = float(getattr(f, "cutoff_time", -1.0))
        self.params = [dict(p) for p in f.params]


_LEDGER = {}


def ledger(cls, name, unit, ta, T=None):
    """The component `name` built on its own inside energy_units(unit).  Construction is a
    deterministic function of (class, parameters, unit, time axis), so the record
    is kept per worker process (records are never handed to the library)."""
    key = (cls, name, unit, T, type(ta).__name__, float(ta.start), int(ta.length),
           float(ta.step))
    if key not in _LEDGER:
        _LEDGER[key] = Comp(make_leaf(cls, name, unit, ta, T))
    return _LEDGER[key]


def check_leaf(cls, name, unit, f, ta, viol):
    """Construction-context independence of one component.

    Why this follows from the property statement (and is not an extra demand): the statement
    quantifies over "all unit contexts used for construction" and requires x + x, x += x to
    have twice x's data.  The library stores the parameter list in internal units and
    regenerates the left operand / the self-operand from that list inside
    energy_units('int'); hence  regenerated(x).data + x.data == 2 x.data,  i.e. the component
    as constructed inside energy_units(U) from parameters given in U must have the data of the
    component built in internal units from the stored parameters - and the stored parameters
    must be the conversions of the declared ones ("carry consistent parameters"; for the
    reorganisation energy that is the existing declared-energy check).  The ledger the driver
    has always used (components built in 1/cm, leaves in 1/cm / eV / internal) presupposes
    exactly the same."""
    ft = ftype_of(cls, name)
    tag = "%s/%s/built-in-%s" % (cls, ft, unit)
    ref = ledger(cls, name, "int", ta)
    ok, err = approx(f.data, ref.data, TOL)
    if not ok:
        viol.append(("component-data-depend-on-construction-context/" + tag,
                     "%s component %r built from parameters in %s inside energy_units(%r) "
                     "differs from the one built in internal units from the converted "
                     "parameters by %g (scale %g)"
                     % (cls, name, unit, unit, err, float(numpy.max(numpy.abs(ref.data)))),
                     {"err": err}))
    if abs(float(f.lamb) - ref.lamb) > 1e-12 * abs(ref.lamb):
        viol.append(("component-reorganisation-energy-depends-on-construction-context/" + tag,
                     "lamb %r, built in internal units %r" % (float(f.lamb), ref.lamb), None))
    spec = spec_of(cls, name)
    decl = dict(reorg=declared_reorg(cls, name)) if not isinstance(spec, dict) else spec
    if len(f.params) != 1:
        viol.append(("component-parameter-list-length/" + tag,
                     "%d parameter sets recorded for a single component" % len(f.params), None))
    else:
        for k in ENERGY_KEYS:
            if k in decl:
                want = _conv(decl[k], "int")
                got = f.params[0].get(k)
                if got is None or abs(float(got) - want) > 1e-12 * abs(want):
                    viol.append(("component-parameters-not-in-internal-units/%s/%s" % (tag, k),
                                 "recorded %s = %r, declared value in internal units %r"
                                 % (k, got, want), None))


def _snap(f):
    return (numpy.array(f.data, copy=True), float(f.lamb), len(f.params),
            float(getattr(f, "temperature", -1.0)))


def _same(f, s):
    return (numpy.array_equal(numpy.asarray(f.data), s[0]) and float(f.lamb) == s[1]
            and len(f.params) == s[2] and float(getattr(f, "temperature", -1.0)) == s[3])


def leaves_of(tree):
    if isinstance(tree, str):
        return [tree]
    return leaves_of(tree[1]) + leaves_of(tree[2])


def built_leaves(tree):
    """Leaves in the order they are constructed ('self' constructs nothing)."""
    return [x for x in leaves_of(tree) if x != "self"]


def has(tree, leaf):
    return leaf in leaves_of(tree)


class Refused(Exception):
    pass


def build(cls, tree, unit_of, ta, addctx, viol, counter, made):
    """Evaluate the expression on real objects.  Every `+` is executed inside the addition
    context; operands are checked for being unchanged.  `made` collects, per constructed leaf,
    (name, unit, data as constructed, lamb as constructed).  Returns (object, multiset of
    indices into `made` the object is the sum of)."""
    qr = isolation.qr()
    if isinstance(tree, str):
        i = counter[0]
        counter[0] += 1
        f = make_leaf(cls, tree, unit_of(i), ta)
        made.append((tree, unit_of(i), numpy.array(f.data, copy=True), float(f.lamb)))
        check_leaf(cls, tree, unit_of(i), f, ta, viol)
        return f, [i]
    op, l, r = tree
    L, il = build(cls, l, unit_of, ta, addctx, viol, counter, made)
    if op == "+=" and r == "self":
        R, ir = L, list(il)
    else:
        R, ir = build(cls, r, unit_of, ta, addctx, viol, counter, made)
    sl, sr = _snap(L), _snap(R)
    cm = qr.energy_units(addctx) if addctx else None
    if cm:
        cm.__enter__()
    try:
        try:
            if op == "+":
                out = L + R
            else:
                L += R
                out = L
        except Exception as e:
            # a refusal must leave the operands as they were
            if not _same(L, sl):
                viol.append(("refused-addition-changed-left-operand/%s/%s" % (cls, op),
                             "refused %s changed its left operand (%s)" % (op, str(e)[:80]), None))
            if R is not L and not _same(R, sr):
                viol.append(("refused-addition-changed-right-operand/%s/%s" % (cls, op),
                             "refused %s changed its right operand" % op, None))
            raise Refused(str(e))
    finally:
        if cm:
            cm.__exit__(None, None, None)
    if op == "+" and not _same(L, sl):
        viol.append(("addition-changed-left-operand/%s" % cls, "a+b changed a", None))
    if R is not L and not _same(R, sr):
        viol.append(("addition-changed-right-operand/%s/%s" % (cls, op),
                     "%s changed its right operand" % op, None))
    return out, il + ir


def tree_str(t):
    if isinstance(t, str):
        return t
    return "(%s%s%s)" % (tree_str(t[1]), t[0], tree_str(t[2]) if t[2] != "self" else "<self>")


def leaf_units(case, n):
    """Construction unit of every built leaf: an explicit list, or a legacy pattern name."""
    uni = case["leaf_units"]
    pat = LEGACY_PATTERNS[uni] if isinstance(uni, str) else list(uni)
    return [pat[i % len(pat)] for i in range(n)]


def eval_tree(case):
    qr = isolation.qr()
    cls, tree, addctx = case["cls"], case["tree"], case["add_ctx"]
    ta = axis_of(case)
    viol = []
    built = built_leaves(tree)
    units = leaf_units(case, len(built))
    ustr = ",".join(units)
    suffix = _special_suffix(cls, built)

    def done(res):
        res["violations"] = _finish(viol, suffix, axis_suffix(case))
        return res

    if case.get("optional"):
        # a component type that cannot be constructed at all has nothing to add
        try:
            for n in set(built):
                ledger(cls, n, "int", ta)
        except Exception as e:
            return {"nontrivial": False, "violations": [],
                    "outcome": ["component-type-unavailable", cls, tree_str(tree), ustr,
                                type(e).__name__]}

    def unit_of(i):
        return units[i]
    lv = leaves_of(tree)
    lv = [x for x in lv if x != "self"]
    if tree[0] == "+=" and tree[2] == "self":
        lv = leaves_of(tree[1]) * 2
    # ledger (2): individually built components
    comps = [ledger(cls, n, "1/cm", ta) for n in lv]
    exp_data = sum((c.data for c in comps[1:]), numpy.array(comps[0].data, copy=True))
    exp_lamb = sum(c.lamb for c in comps)
    temps = set(c.temperature for c in comps) if cls == "cf" else {300.0}
    variant = "%s/add-in-%s" % (cls, addctx or "no-context")
    mixed = len(set(CF_LEAVES[n]["ftype"] if isinstance(CF_LEAVES.get(n), dict) else n
                    for n in lv)) > 1 if cls == "cf" else len(set(lv)) > 1
    made = []
    try:
        res, idx = build(cls, tree, unit_of, ta, addctx, viol, [0], made)
    except Refused as e:
        if cls == "cf" and len(temps) > 1:
            return done({"nontrivial": True, "outcome": ["refused-different-T", tree_str(tree)]})
        viol.append(("admissible-addition-refused/%s" % variant,
                     "%s raised: %s" % (tree_str(tree), e), None))
        return done({"nontrivial": True, "outcome": ["refused", tree_str(tree), ustr]})
    if cls == "cf" and len(temps) > 1:
        viol.append(("different-temperatures-accepted/%s" % variant,
                     "%s was accepted although temperatures %s differ"
                     % (tree_str(tree), sorted(temps)), None))
        return done({"nontrivial": True, "outcome": ["accepted-different-T", tree_str(tree)]})
    kind = "mixed-types" if mixed else "same-type"
    where = "%s [leaves built in %s]" % (tree_str(tree), ustr)
    # ledger (1): the operands exactly as they were constructed in this case
    own_data = sum((made[i][2] for i in idx[1:]), numpy.array(made[idx[0]][2], copy=True))
    own_lamb = sum(made[i][3] for i in idx)
    ok, err = approx(res.data, own_data, TOL)
    if not ok:
        viol.append(("data-not-sum-of-operands-as-constructed/%s/%s" % (variant, kind),
                     "%s: data differs from the sum of the data the operands had when they "
                     "were constructed by %g (scale %g)"
                     % (where, err, float(numpy.max(numpy.abs(own_data)))), {"err": err}))
    if abs(float(res.lamb) - own_lamb) > 1e-10 * abs(own_lamb):
        viol.append(("reorganisation-energy-not-sum-of-operands-as-constructed/%s" % variant,
                     "%s: lamb %r, sum of the operands' %r" % (where, float(res.lamb), own_lamb),
                     None))
    ok, err = approx(res.data, exp_data, TOL)
    if not ok:
        viol.append(("data-not-sum-of-components/%s/%s" % (variant, kind),
                     "%s: data differs from the sum of the components' data by %g (scale %g)"
                     % (where, err, float(numpy.max(numpy.abs(exp_data)))),
                     {"err": err}))
    if abs(float(res.lamb) - exp_lamb) > 1e-10 * abs(exp_lamb):
        viol.append(("reorganisation-energy-not-additive/%s" % variant,
                     "%s: lamb %r, sum of components %r" % (where, float(res.lamb), exp_lamb),
                     None))
    with qr.energy_units("1/cm"):
        declared = float(res.get_reorganization_energy())
    decl_exp = sum(declared_reorg(cls, n) for n in lv)
    if abs(declared - decl_exp) > 1e-6 * decl_exp:
        viol.append(("declared-reorganisation-energy/%s" % variant,
                     "%s: get_reorganization_energy() = %r 1/cm, declared sum %r"
                     % (where, declared, decl_exp), None))
    if len(res.params) != len(lv):
        viol.append(("component-list-length/%s" % variant,
                     "%s: %d components recorded, %d added" % (where, len(res.params),
                                                               len(lv)), None))
    else:
        got = sorted((p["ftype"], round(float(p["reorg"]), 12)) for p in res.params)
        exp = sorted((p["ftype"], round(float(p["reorg"]), 12)) for c in comps for p in c.params)
        if got != exp:
            viol.append(("component-list-content/%s" % variant,
                         "%s: recorded components %r, added %r" % (where, got, exp), None))
    if cls == "cf" and float(res.temperature) != 300.0:
        viol.append(("temperature-of-sum/%s" % variant, "temperature %r" % res.temperature, None))
    if cls == "cf":
        # the cut-off time of a composite is the longest one of its components, whatever their
        # reorganisation energies are
        want = max(c.cutoff_time for c in comps)
        if abs(float(res.cutoff_time) - want) > 1e-9 * abs(want):
            viol.append(("cutoff-time-of-sum/%s" % variant,
                         "%s: cut-off time %r, the longest one of the components is %r"
                         % (where, float(res.cutoff_time), want), None))
    # the component list regenerates the same function (carries consistent parameters)
    if not any(is_value(cls, n) for n in lv):
        own_now = numpy.array(res.data, copy=True)
        for cctx in ([None, addctx] if addctx else [None]):
            ctag = "" if cctx is None else "/copy-in-%s" % cctx
            try:
                if cctx:
                    with qr.energy_units(cctx):
                        cp = res.copy()
                else:
                    cp = res.copy()
            except Exception as e:
                viol.append(("rebuild-from-components-raises/%s%s" % (cls, ctag),
                             str(e)[:100], None))
                continue
            ok, err = approx(cp.data, exp_data, TOL)
            if not ok:
                viol.append(("rebuild-from-components-differs/%s/%s%s" % (cls, kind, ctag),
                             "%s: a copy rebuilt from the recorded components differs from the "
                             "sum by %g" % (where, err), {"err": err}))
            ok, err = approx(cp.data, own_now, TOL)
            if not ok:
                viol.append(("copy-differs-from-original/%s/%s%s" % (cls, kind, ctag),
                             "%s: copy() differs from the object it copies by %g (scale %g)"
                             % (where, err, float(numpy.max(numpy.abs(own_now)))),
                             {"err": err}))
            if abs(float(cp.lamb) - float(res.lamb)) > 1e-10 * abs(float(res.lamb)):
                viol.append(("copy-reorganisation-energy-differs/%s%s" % (cls, ctag),
                             "%s: copy().lamb %r, original %r"
                             % (where, float(cp.lamb), float(res.lamb)), None))
    # measured vs declared reorganisation energy, parities of the FT parts (analytic only)
    if cls == "cf" and case.get("deep") and decl_exp > 0.0 \
            and not any(is_value(cls, n) for n in lv):
        with qr.energy_units("1/cm"):
            meas = float(res.measure_reorganization_energy())
        tolq = cf_measure_tolerance(lv, ta)
        if not abs(meas - decl_exp) <= tolq * decl_exp:
            viol.append(("measured-reorganisation-energy/%s" % kind,
                         "%s on TimeAxis(0, %d, %g): measured %r 1/cm, declared %r (computed "
                         "truncation + quadrature tolerance %.2g)"
                         % (tree_str(tree), ta.length, ta.step, meas, decl_exp, tolq), None))
        if not bool(res.reorganization_energy_consistent()):
            viol.append(("reorganization-energy-consistent-false/cf/%s" % kind,
                         "%s on TimeAxis(0, %d, %g): reorganization_energy_consistent() is "
                         "False" % (tree_str(tree), ta.length, ta.step), None))
        from quantarhei.qm.corfunctions.correlationfunctions import (
            EvenFTCorrelationFunction, OddFTCorrelationFunction)
        with qr.energy_units("int"):
            for nm, clsft, sgn in (("even", EvenFTCorrelationFunction, 1.0),
                                   ("odd", OddFTCorrelationFunction, -1.0)):
                ft = clsft(ta, res.params)
                w = ft.axis.data
                y = numpy.asarray(ft.data)
                n0 = int(numpy.argmin(numpy.abs(w)))
                m = min(n0, len(w) - 1 - n0)
                k = numpy.arange(1, m + 1)
                dev = numpy.max(numpy.abs(y[n0 + k] - sgn * y[n0 - k]))
                sc = numpy.max(numpy.abs(y))
                if dev > 1e-9 * sc or numpy.max(numpy.abs(numpy.imag(y))) > 1e-9 * sc:
                    viol.append(("ft-part-parity/%s/%s" % (nm, kind),
                                 "%s: %s FT part deviates from %s parity by %g (scale %g)"
                                 % (tree_str(tree), nm, nm, dev, sc), None))
    if cls == "sd" and case.get("faxis") and decl_exp > 0.0:
        # the reorganisation energy recovered from the data on the user-supplied axis
        meas = float(res.measure_reorganization_energy())
        check_sd_measured(meas, lv, ta, viol, "sum", where)
        again = float(res.measure_reorganization_energy())
        if again != meas:
            viol.append(("second-measurement-differs/sd/on-frequency-axis",
                         "%s: measured %r, measured again %r" % (where, meas, again), None))
    return done({"nontrivial": len(lv) >= 2,
                 "outcome": [tree_str(tree), ustr, addctx, case.get("axis") or case.get("faxis"),
                             round(float(res.lamb), 9),
                             round(float(numpy.abs(numpy.asarray(res.data)).sum()), 9)]})


# =====================================================================================
# Sub-product LIST: composites built from a LIST of parameter dictionaries
# =====================================================================================
# Every sequence (with repetition, every order) of <= 3 (quick) / <= 4 (thorough, core shapes)
# components x every assignment of the temperatures LIST_T to the positions x every
# construction unit x construction route:
#   "params":  CorrelationFunction(ta, [p1, p2, ...]) / SpectralDensity(ta, [p1, ...])
#   "values":  CorrelationFunction(ta, [p1, p2, ...], values=...)  (the route
#              SpectralDensity.get_CorrelationFunction uses for composites)
# The shapes have different, equal ("a"/"e", repetitions) and incomparable correlation times,
# so that the component with the deviating temperature stands before / after components with
# shorter, equal and longer correlation times, in every position.
# Oracle: a sequence with two different temperatures is refused; a legal one has the data /
# reorganisation energy / component list / temperature / cut-off time of the sum of the
# separately built components (ledger at the temperature of the sequence).
LIST_T = [300.0, 77.0]
LIST_CORE = {"cf": ["a", "b", "c", "e"], "sd": ["a", "b", "c"]}
LIST_EXT = {"cf": ["u", "w"], "sd": ["w", "p", "q"]}


def _values(ta):
    t = ta.data
    return (3e-5 * numpy.exp(-t / 80.0) * numpy.cos(t / 37.0)
            - 1j * 2e-5 * numpy.exp(-t / 60.0))


def _cls(cls):
    qr = isolation.qr()
    return qr.CorrelationFunction if cls == "cf" else qr.SpectralDensity


def _special_suffix(cls, names):
    special = sorted(set(ftype_of(cls, n) for n in names
                         if n in EXT[cls] or n in OPTIONAL[cls]))
    if any(n in DEGENERATE[cls] for n in names):
        special.append("zero-reorganisation-energy-operand")
    return "/with-" + "+".join(special) if special else ""


def _kind_of(cls, names):
    return "mixed-types" if len(set(ftype_of(cls, n) for n in names)) > 1 else "same-type"


def seq_str(seq):
    return "[" + ", ".join("%s@%gK" % (n, T) for n, T in seq) + "]"


def eval_list(case):
    qr = isolation.qr()
    cls, seq, unit, route = case["cls"], case["seq"], case["unit"], case["route"]
    ta = axis_of(case)
    viol = []
    names = [n for n, _ in seq]
    temps = sorted(set(float(T) for _, T in seq))
    suffix = _special_suffix(cls, names)
    variant = "%s/list-built/%s" % (cls, route)
    label = "%s built in %s (%s)" % (seq_str(seq), unit, route)

    def done(res):
        res["violations"] = _finish(viol, suffix, axis_suffix(case))
        return res

    plist = [params_of(cls, n, unit, T) for n, T in seq]
    vals = _values(ta) if route == "values" else None
    try:
        with qr.energy_units(unit):
            if vals is None:
                f = _cls(cls)(ta, plist)
            else:
                f = _cls(cls)(ta, plist, values=numpy.array(vals, copy=True))
    except Exception as e:
        if cls == "cf" and len(temps) > 1:
            return done({"nontrivial": True,
                         "outcome": ["list-refused-different-T", seq_str(seq), unit, route,
                                     case.get("axis")]})
        viol.append(("admissible-composite-refused/%s" % variant,
                     "%s raised: %s" % (label, str(e)[:100]), None))
        return done({"nontrivial": True,
                     "outcome": ["list-refused", seq_str(seq), unit, route, case.get("axis")]})
    if cls == "cf" and len(temps) > 1:
        viol.append(("different-temperatures-accepted/%s" % variant,
                     "%s was accepted although the temperatures %s differ (temperature "
                     "reported: %r)" % (label, temps, getattr(f, "temperature", None)), None))
        return done({"nontrivial": True,
                     "outcome": ["list-accepted-different-T", seq_str(seq), unit, route,
                                     case.get("axis")]})
    kind = _kind_of(cls, names)
    decl_exp = sum(spec_of(cls, n)["reorg"] for n in names)
    if vals is None:
        comps = [ledger(cls, n, "1/cm", ta, T) for n, T in seq]
        exp_data = sum((c.data for c in comps[1:]), numpy.array(comps[0].data, copy=True))
        exp_lamb = sum(c.lamb for c in comps)
    else:
        comps = None
        exp_data = vals
        exp_lamb = _conv(decl_exp, "int")
    ok, err = approx(f.data, exp_data, TOL)
    if not ok:
        viol.append(("data-not-sum-of-components/%s/%s" % (variant, kind),
                     "%s: data differs from the sum of the separately built components' data "
                     "by %g (scale %g)" % (label, err, float(numpy.max(numpy.abs(exp_data)))),
                     {"err": err}))
    if abs(float(f.lamb) - exp_lamb) > 1e-10 * abs(exp_lamb):
        viol.append(("reorganisation-energy-not-additive/%s" % variant,
                     "%s: lamb %r, sum of components %r" % (label, float(f.lamb), exp_lamb),
                     None))
    with qr.energy_units("1/cm"):
        declared = float(f.get_reorganization_energy())
    if abs(declared - decl_exp) > 1e-6 * decl_exp:
        viol.append(("declared-reorganisation-energy/%s" % variant,
                     "%s: get_reorganization_energy() = %r 1/cm, declared sum %r"
                     % (label, declared, decl_exp), None))
    if len(f.params) != len(seq):
        viol.append(("component-list-length/%s" % variant,
                     "%s: %d components recorded, %d given" % (label, len(f.params), len(seq)),
                     None))
    else:
        got = [(p["ftype"], round(float(p["reorg"]), 12)) for p in f.params]
        exp = [(ftype_of(cls, n), round(_conv(spec_of(cls, n)["reorg"], "int"), 12))
               for n in names]
        if got != exp:
            viol.append(("component-list-content/%s" % variant,
                         "%s: recorded components %r, given %r" % (label, got, exp), None))
    if cls == "cf":
        if float(f.temperature) != temps[0]:
            viol.append(("temperature-of-composite/%s" % variant,
                         "%s: temperature %r" % (label, f.temperature), None))
        if comps is not None:
            want = max(c.cutoff_time for c in comps)
            if abs(float(f.cutoff_time) - want) > 1e-9 * abs(want):
                viol.append(("cutoff-time-of-composite/%s" % variant,
                             "%s: cut-off time %r, the longest one of the components is %r"
                             % (label, float(f.cutoff_time), want), None))
    if vals is None:
        try:
            cp = f.copy()
        except Exception as e:
            cp = None
            viol.append(("rebuild-from-components-raises/%s/list-built" % cls, str(e)[:100],
                         None))
        if cp is not None:
            ok, err = approx(cp.data, exp_data, TOL)
            if not ok:
                viol.append(("rebuild-from-components-differs/%s/%s/list-built" % (cls, kind),
                             "%s: a copy rebuilt from the recorded components differs from "
                             "the sum by %g" % (label, err), {"err": err}))
            if abs(float(cp.lamb) - float(f.lamb)) > 1e-10 * abs(float(f.lamb)):
                viol.append(("copy-reorganisation-energy-differs/%s/list-built" % cls,
                             "%s: copy().lamb %r, original %r"
                             % (label, float(cp.lamb), float(f.lamb)), None))
    return done({"nontrivial": len(seq) >= 2,
                 "outcome": [seq_str(seq), unit, route, case.get("axis"),
                             round(float(f.lamb), 9),
                             round(float(numpy.abs(numpy.asarray(f.data)).sum()), 9)]})


def list_cases(tier):
    cs = []
    for cls in ("cf", "sd"):
        core, ext = LIST_CORE[cls], LIST_EXT[cls]
        avail = [x for x in OPTIONAL[cls] if constructible(cls, x)]
        temps = LIST_T if cls == "cf" else LIST_T[:1]
        nmax = 3 if tier == "quick" else 4
        seqs, have = [], set()
        # (alphabet of shapes, maximal length)
        for alpha, n_to in ((core + ext, 3), (core, nmax), (core + ext + avail, 2)):
            syms = [(x, T) for x in alpha for T in temps]
            for n in range(1, n_to + 1):
                for sq in itertools.product(syms, repeat=n):
                    k = seq_str(sq)
                    if k not in have:
                        have.add(k)
                        seqs.append([list(x) for x in sq])
        for sq in seqs:
            for unit in UNITS[tier]:
                for route in (("params", "values") if cls == "cf" else ("params",)):
                    cs.append({"kind": "list", "cls": cls, "seq": sq, "unit": unit,
                               "route": route})
    cs.sort(key=lambda c: len(c["seq"]))
    return cs


# =====================================================================================
# Sub-product FTSUM: sums of the frequency-domain parts
# =====================================================================================
# EvenFTCorrelationFunction / OddFTCorrelationFunction / FTCorrelationFunction have no
# addition of their own (DFunction.__add__).  Every binary '+' tree with <= 3 (quick) / <= 4
# (thorough, even and odd parts) leaves over the part alphabet {E, O, F} x sources, every
# grouping and order, leaves with repetition; EQUAL SYMBOLS ARE THE SAME OBJECT (an operand is
# used again), and every tree is evaluated twice on the same objects.  Sources: the leaves a,
# b (c) and the composite a+b; two routes to a part: the getter of the correlation function /
# the constructor inside energy_units('1/cm') from the declared parameters.
# Oracle: ledger of the parts' data taken BEFORE any addition: data of every sum == sum of
# the ledger entries of its leaves (both evaluations); no operand changes (checked after every
# '+' and after the whole history); even / odd parts are even / odd before and after they
# were used as operands; the part of a composite is the sum of the parts of its components.
# A complex-valued part (F) is only added to a complex-valued left operand (a real-valued
# left operand cannot hold the sum; E + F raises in numpy - not a statement of C09).
FT_CLASS = {"E": "EvenFTCorrelationFunction", "O": "OddFTCorrelationFunction",
            "F": "FTCorrelationFunction"}
FT_SOURCES = {"a": ["a"], "b": ["b"], "c": ["c"], "ab": ["a", "b"]}
FT_PARITY = {"E": ("even", 1.0), "O": ("odd", -1.0)}


def _parity(ft, sgn):
    """(deviation from the parity, largest imaginary part, scale) on the symmetric grid."""
    w = ft.axis.data
    y = numpy.asarray(ft.data)
    n0 = int(numpy.argmin(numpy.abs(w)))
    m = min(n0, len(w) - 1 - n0)
    k = numpy.arange(1, m + 1)
    dev = float(numpy.max(numpy.abs(y[n0 + k] - sgn * y[n0 - k])))
    return dev, float(numpy.max(numpy.abs(numpy.imag(y)))), float(numpy.max(numpy.abs(y)))


def _ft_part(part, src, route, ta, sources):
    qr = isolation.qr()
    import quantarhei.qm.corfunctions.correlationfunctions as mod
    if route == "getter":
        if src not in sources:
            objs = [make_leaf("cf", n, "1/cm", ta) for n in FT_SOURCES[src]]
            cf = objs[0]
            for o in objs[1:]:
                cf = cf + o
            sources[src] = cf
        return getattr(sources[src], "get_" + FT_CLASS[part])()
    pl = [params_of("cf", n, "1/cm") for n in FT_SOURCES[src]]
    with qr.energy_units("1/cm"):
        return getattr(mod, FT_CLASS[part])(ta, pl[0] if len(pl) == 1 else pl)


def _ft_build(tree, objs, viol):
    """Evaluate a '+' tree on shared objects; operands are checked after every '+'."""
    if isinstance(tree, str):
        return objs[tree], [tree]
    _, l, r = tree
    L, il = _ft_build(l, objs, viol)
    R, ir = _ft_build(r, objs, viol)
    sl = numpy.array(L.data, copy=True)
    sr = numpy.array(R.data, copy=True)
    out = L + R
    if not numpy.array_equal(numpy.asarray(L.data), sl):
        viol.append(("ft-part-addition-changed-left-operand/%s" % type(L).__name__,
                     "x + y changed the data of x (%s) by %g"
                     % (type(L).__name__,
                        float(numpy.max(numpy.abs(numpy.asarray(L.data) - sl)))), None))
    if R is not L and not numpy.array_equal(numpy.asarray(R.data), sr):
        viol.append(("ft-part-addition-changed-right-operand/%s" % type(R).__name__,
                     "x + y changed the data of y (%s)" % type(R).__name__, None))
    return out, il + ir


def eval_ftsum(case):
    qr = isolation.qr()
    tree, route = case["tree"], case["route"]
    ta = axis_of(case)
    viol = []
    syms = sorted(set(leaves_of(tree)))
    sources, objs, snap = {}, {}, {}
    for s_ in syms:
        part, src = s_.split(":")
        objs[s_] = _ft_part(part, src, route, ta, sources)
        snap[s_] = numpy.array(objs[s_].data, copy=True)
    # fresh parts: parity; the part of a composite is the sum of the components' parts
    for s_ in syms:
        part, src = s_.split(":")
        if part in FT_PARITY:
            nm, sgn = FT_PARITY[part]
            dev, im, sc = _parity(objs[s_], sgn)
            if dev > 1e-9 * sc or im > 1e-9 * sc:
                viol.append(("ft-part-parity/%s/fresh/%s" % (nm, route),
                             "%s: %s FT part deviates from %s parity by %g (scale %g)"
                             % (s_, nm, nm, dev, sc), None))
            if len(FT_SOURCES[src]) > 1:
                ref = None
                for n in FT_SOURCES[src]:
                    d = numpy.array(_ft_part(part, n, route, ta, sources).data, copy=True)
                    ref = d if ref is None else ref + d
                ok, err = approx(snap[s_], ref, TOL)
                if not ok:
                    viol.append(("ft-part-of-sum-not-sum-of-parts/%s/%s" % (nm, route),
                                 "%s: the %s FT part of a+b differs from the sum of the "
                                 "components' parts by %g (scale %g)"
                                 % (s_, nm, err, float(numpy.max(numpy.abs(ref)))),
                                 {"err": err}))
    lv = leaves_of(tree)
    expected = sum((snap[x] for x in lv[1:]), numpy.array(snap[lv[0]], copy=True))
    pk = "+".join(sorted(set(x.split(":")[0] for x in lv)))
    sc = float(numpy.max(numpy.abs(expected)))
    res = None
    if len(lv) > 1:
        for nth in ("first", "second"):
            res, idx = _ft_build(tree, objs, viol)
            ok, err = approx(res.data, expected, TOL)
            if not ok:
                viol.append(("ft-part-sum-not-sum-of-operands/%s-evaluation/%s" % (nth, pk),
                             "%s (%s evaluation on the same objects): data differs from the "
                             "sum of the data the operands had before any addition by %g "
                             "(scale %g)" % (tree_str(tree), nth, err, sc), {"err": err}))
    # the operands after the history
    for s_ in syms:
        part, src = s_.split(":")
        now = numpy.asarray(objs[s_].data)
        if not numpy.array_equal(now, snap[s_]):
            viol.append(("ft-part-changed-by-use-as-operand/%s" % part,
                         "%s: %s changed by %g (scale %g) after it was used as an operand"
                         % (tree_str(tree), s_, float(numpy.max(numpy.abs(now - snap[s_]))),
                            float(numpy.max(numpy.abs(snap[s_])))), None))
        if part in FT_PARITY and len(lv) > 1:
            nm, sgn = FT_PARITY[part]
            dev, im, sc_ = _parity(objs[s_], sgn)
            if dev > 1e-9 * sc_ or im > 1e-9 * sc_:
                viol.append(("ft-part-parity/%s/after-use-as-operand" % nm,
                             "%s: %s is no longer %s in frequency after it was used as an "
                             "operand (deviation %g, scale %g)"
                             % (tree_str(tree), s_, nm, dev, sc_), None))
    out = numpy.asarray(res.data) if res is not None else expected
    return {"nontrivial": len(lv) >= 2, "violations": _finish(viol, "", axis_suffix(case)),
            "outcome": [tree_str(tree), route, case.get("axis"),
                        round(float(numpy.abs(out).sum()), 9)]}


def _has_part(tree, part):
    return any(x.startswith(part + ":") for x in leaves_of(tree))


def _ft_admissible(tree):
    """complex-valued operands only onto complex-valued left operands"""
    if isinstance(tree, str):
        return True
    _, l, r = tree
    if _has_part(r, "F") and not _has_part(l, "F"):
        return False
    return _ft_admissible(l) and _ft_admissible(r)


def ftsum_cases(tier):
    alpha3 = ["E:a", "O:a", "F:a", "E:b", "O:b", "F:b", "E:ab", "O:ab"]
    trees, have = [], set()

    def add(alpha, nmax):
        for n in range(1, nmax + 1):
            for t in all_trees(alpha, n):
                if _ft_admissible(t) and tree_str(t) not in have:
                    have.add(tree_str(t))
                    trees.append(t)
    add(alpha3, 3)
    if tier == "thorough":
        add(["E:a", "O:a", "E:b", "O:b", "E:c", "O:c"], 4)
        add(alpha3 + ["E:c", "O:c", "F:c"], 3)
    cs = [{"kind": "ftsum", "tree": t, "route": route}
          for t in trees for route in ("getter", "constructor")]
    cs.sort(key=lambda c: len(leaves_of(c["tree"])))
    return cs


# =====================================================================================
# Sub-product MEASURE: histories interleaving measurements with every mutation route
# =====================================================================================
# One object x (a leaf of an analytically defined type, or a composite built from a list);
# history of <= 2 (quick) / <= 3 (thorough) steps, every step one of
#   x += y | x.add_to_data(y) | x.add_to_data2(y) | x = x + y | x += x
# with every operand y of the alphabet; before every step x is measured or not (for a
# correlation function: inside energy_units('1/cm') or in internal units), and always after
# the last step (in every context); the operands were measured before use or not.
# Oracle after every step: data / lamb / component list == ledger sum; whenever measured:
#   measure_reorganization_energy() == declared sum   (class Q 1e-3, correlation function;
#       spectral density: class T - the tail beyond the last frequency, which the integral
#       cannot contain, is computed for the overdamped Brownian form - and 2e-3),
#   == the measurement of a NEW object holding a copy of the current data (rounding): the
#       measurement is a function of the current data,
#   reorganization_energy_consistent() is True (correlation function).
MEAS_OPS = ["iadd", "add_to_data", "add_to_data2", "plus"]
MEAS_CTX = {"cf": ["1/cm", "int"], "sd": ["int"]}
# spectral density: before /repo 2fd2a08 measure_reorganization_energy() did not convert to the
# current units (C05 decides that clause now); the histories here measure in internal units.


def _sd_expected_measured(names, ta):
    """Declared reorganisation energy (internal units) minus the part of the integral that
    lies beyond the last point of the frequency axis (overdamped Brownian: Drude tail)."""
    wmax = numpy.pi / ta.step
    tot = 0.0
    for n in names:
        sp = SD_LEAVES[n]
        lam = _conv(sp["reorg"], "int")
        if sp["ftype"] == "OverdampedBrownian":
            lam *= (2.0 / numpy.pi) * numpy.arctan(wmax * sp["cortime"])
        tot += lam
    return tot


SD_MEASURE_TOL = 2e-3
# user-supplied frequency axes (reference model instead of the declared value): class Q; worst
# deviation observed on the reference tree 6.8e-5 (UnderdampedBrownian, 3 points per line
# width); the smallest effect it has to resolve: 1.2e-2 (short negative branch)
FAXIS_MEASURE_TOL = 5e-4


def sd_reference_measured(names, fa):
    """Reorganisation energy (internal units) that the data of the sum of the components
    `names` on the FrequencyAxis fa can contain: (1/pi) int J(w)/w dw over the part of
    [0, infinity) the axis covers, from the reference model (analytic formulas, closed form /
    adaptive quadrature).  Returns (whole, covered, lo_whole, lo_covered, hi):
      whole    over [max(0, first point of the axis), last point];
      covered  over [max(0, first NON-ZERO point), last point]: equal to `whole` unless w = 0
               is the very first point of the axis (J(w)/w is a limit there; the point has a
               neighbour on one side only)."""
    from mc.refmodels.reorg_integral import reorg_on_interval
    w = numpy.asarray(fa.data, dtype=float)
    hi = float(w[-1])
    lo_whole = max(0.0, float(w[0]))
    nz = w[w != 0.0]
    lo_cov = max(0.0, float(nz[0]))
    plist = [params_of("sd", n, "int") for n in names]
    return (reorg_on_interval(plist, lo_whole, hi), reorg_on_interval(plist, lo_cov, hi),
            lo_whole, lo_cov, hi)


def check_sd_measured(meas, names, fa, viol, what, where):
    """measured == the part of the declared reorganisation energy that lies on the axis
    (class Q, FAXIS_MEASURE_TOL)."""
    whole, cov, lo_w, lo_c, hi = sd_reference_measured(names, fa)
    if abs(meas - whole) <= FAXIS_MEASURE_TOL * abs(whole):
        return
    declared = sum(_conv(SD_LEAVES[n]["reorg"], "int") for n in names)
    if lo_c != lo_w and abs(meas - cov) <= FAXIS_MEASURE_TOL * abs(cov):
        viol.append(("measured-reorganisation-energy/sd/on-frequency-axis/"
                     "interval-from-zero-to-the-first-non-zero-point-not-integrated/%s" % what,
                     "%s on FrequencyAxis(%g, %d, %g): measured %r = the integral of J(w)/w "
                     "over [%g, %g] only (%r); the axis covers [0, %g], which holds %r "
                     "(declared: %r); relative loss %.3g"
                     % (where, float(fa.start), fa.length, float(fa.step), meas, lo_c, hi, cov,
                        hi, whole, declared, 1.0 - meas / whole), None))
        return
    viol.append(("measured-reorganisation-energy/sd/on-frequency-axis/%s" % what,
                 "%s on FrequencyAxis(%g, %d, %g): measured %r, but (1/pi) int J(w)/w dw "
                 "over the part [%g, %g] of the positive half line that the axis covers is %r "
                 "(declared: %r; tolerance %.2g)"
                 % (where, float(fa.start), fa.length, float(fa.step), meas, lo_w, hi, whole,
                    declared, FAXIS_MEASURE_TOL), None))


def _measure(cls, x, ctx, names, ta, viol, where, full=True):
    """One measurement of x in the context ctx with all oracles; full=False: without
    reorganization_energy_consistent()."""
    qr = isolation.qr()
    lam = float(x.lamb)
    data = numpy.array(x.data, copy=True)
    cons = True
    if cls == "cf":
        with qr.energy_units(ctx):
            meas = float(x.measure_reorganization_energy())
            if full:
                cons = bool(x.reorganization_energy_consistent())
        with qr.energy_units("int"):
            holder = qr.CorrelationFunction(ta, dict(ftype="Value-defined", reorg=lam,
                                                     T=300.0), values=data)
        with qr.energy_units(ctx):
            mref = float(holder.measure_reorganization_energy())
        want = _conv(sum(declared_reorg("cf", n) for n in names), ctx)
        tolq = cf_measure_tolerance(names, ta)
        if want == 0.0:
            cons = True     # 0/0 in the library's relative test; measured == 0 is checked here
    else:
        meas = float(x.measure_reorganization_energy())
        holder = qr.SpectralDensity(x.axis, [dict(ftype="Value-defined", reorg=lam, T=300.0)],
                                    values=data)
        mref = float(holder.measure_reorganization_energy())
        on_faxis = isinstance(ta, qr.FrequencyAxis)
        want = None if on_faxis else _sd_expected_measured(names, ta)
        tolq = SD_MEASURE_TOL
    tag = "%s/measured-in-%s" % (cls, ctx)
    if want is None:
        # spectral density on a user-supplied frequency axis: reference model
        if sum(SD_LEAVES[n]["reorg"] for n in names) > 0.0:
            check_sd_measured(meas, names, ta, viol, "history", where)
        elif meas != 0.0:
            viol.append(("measured-reorganisation-energy/sd/on-frequency-axis/history",
                         "%s: measured %r for identically vanishing data" % (where, meas),
                         None))
    elif not abs(meas - want) <= tolq * abs(want):
        viol.append(("measured-reorganisation-energy/history/%s" % tag,
                     "%s on TimeAxis(0, %d, %g): measured %r, declared %r (units: %s; "
                     "tolerance %.2g)" % (where, ta.length, ta.step, meas, want, ctx, tolq),
                     None))
    if not abs(meas - mref) <= 1e-10 * abs(mref):
        viol.append(("measured-reorganisation-energy-not-of-current-data/%s" % tag,
                     "%s: measured %r, but a new object holding the same data measures %r"
                     % (where, meas, mref), None))
    if not cons:
        viol.append(("reorganization-energy-consistent-false/%s" % tag,
                     "%s: reorganization_energy_consistent() is False" % where, None))
    return meas


def hist_str(case):
    st = case["start"]
    s = st[1] if st[0] == "leaf" else "list[" + ",".join(st[1]) + "]"
    out = ["x=" + s]
    sym = {"iadd": "x+=%s", "add_to_data": "x.add_to_data(%s)",
           "add_to_data2": "x.add_to_data2(%s)", "plus": "x=x+%s", "iadd-self": "x+=x%s",
           "add_to_data-self": "x.add_to_data(x)%s"}
    for op, y, m in case["steps"]:
        if m:
            out.append("measure[%s]" % m)
        out.append(sym[op] % (y or ""))
    out.append("measure")
    return "; ".join(out)


def eval_measure(case):
    qr = isolation.qr()
    cls, start, steps = case["cls"], case["start"], case["steps"]
    ta = axis_of(case)
    viol = []
    hs = hist_str(case)
    if start[0] == "leaf":
        names = [start[1]]
        x = make_leaf(cls, start[1], "1/cm", ta)
    else:
        names = list(start[1])
        with qr.energy_units("1/cm"):
            x = _cls(cls)(ta, [params_of(cls, n, "1/cm") for n in names])
    for k, (op, yname, mflag) in enumerate(steps):
        where = "%s [before step %d]" % (hs, k + 1)
        if mflag:
            _measure(cls, x, mflag, names, ta, viol, where, full=False)
        where = "%s [step %d]" % (hs, k + 1)
        if op == "iadd-self":
            x += x
            names = names + names
        elif op == "add_to_data-self":
            # x.add_to_data(x): guarded by an alarm, the defect repaired by 1f6043a/d395afa
            # (parameter list appended to while iterating over it) never returned
            import signal

            def _boom(signum, frame):
                raise MemoryError("x.add_to_data(x) did not return within 2 s")
            old_h = signal.signal(signal.SIGALRM, _boom)
            signal.alarm(2)
            try:
                x.add_to_data(x)
            except MemoryError as e:
                viol.append(("self-addition-does-not-return/%s/add_to_data" % cls,
                             "%s: %s" % (where, e), None))
                return {"nontrivial": True, "outcome": ["hang"],
                        "violations": _finish(viol, "", axis_suffix(case))}
            finally:
                signal.alarm(0)
                signal.signal(signal.SIGALRM, old_h)
            names = names + names
        else:
            y = make_leaf(cls, yname, "1/cm", ta)
            if case["operand_measured"]:
                for ctx in MEAS_CTX[cls]:
                    _measure(cls, y, ctx, [yname], ta, viol, where + " operand", full=False)
            sy = _snap(y)
            sx = _snap(x)
            if op == "iadd":
                x += y
            elif op == "add_to_data":
                x.add_to_data(y)
            elif op == "add_to_data2":
                x.add_to_data2(y)
            else:
                old = x
                x = old + y
                if not _same(old, sx):
                    viol.append(("addition-changed-left-operand/%s/history" % cls,
                                 "%s: x + y changed x" % where, None))
            if not _same(y, sy):
                viol.append(("addition-changed-right-operand/%s/history/%s" % (cls, op),
                             "%s: the operand changed" % where, None))
            names = names + [yname]
        comps = [ledger(cls, n, "1/cm", ta) for n in names]
        exp_data = sum((c.data for c in comps[1:]), numpy.array(comps[0].data, copy=True))
        exp_lamb = sum(c.lamb for c in comps)
        ok, err = approx(x.data, exp_data, TOL)
        if not ok:
            viol.append(("data-not-sum-of-components/%s/history/%s" % (cls, op),
                         "%s: data differs from the sum of the components' data by %g "
                         "(scale %g)" % (where, err, float(numpy.max(numpy.abs(exp_data)))),
                         {"err": err}))
        if abs(float(x.lamb) - exp_lamb) > 1e-10 * abs(exp_lamb):
            viol.append(("reorganisation-energy-not-additive/%s/history/%s" % (cls, op),
                         "%s: lamb %r, sum of components %r" % (where, float(x.lamb), exp_lamb),
                         None))
        if len(x.params) != len(names):
            viol.append(("component-list-length/%s/history/%s" % (cls, op),
                         "%s: %d components recorded, %d added"
                         % (where, len(x.params), len(names)), None))
    first = {}
    for ctx in MEAS_CTX[cls]:
        first[ctx] = _measure(cls, x, ctx, names, ta, viol, hs + " [after the last step]")
    # a second measurement of the unchanged object gives the same value
    for ctx in MEAS_CTX[cls]:
        if cls == "cf":
            with qr.energy_units(ctx):
                again = float(x.measure_reorganization_energy())
        else:
            again = float(x.measure_reorganization_energy())
        if not abs(again - first[ctx]) <= 1e-12 * abs(first[ctx]):
            viol.append(("second-measurement-differs/%s/measured-in-%s" % (cls, ctx),
                         "%s: measured %r, measured again %r" % (hs, first[ctx], again), None))
    last = first["int"]
    return {"nontrivial": len(steps) >= 1, "violations": _finish(viol, "", axis_suffix(case)),
            "outcome": [hs, case["operand_measured"], case.get("axis") or case.get("faxis"),
                        round(float(last) * 1e6, 6)]}


def _hist_admissible(cls, ops):
    """value-defined functions only as right-hand operands: once one was added, the object
    cannot be rebuilt from its parameter list (x = x + y, x += x rebuild x)."""
    valued = False
    for op, y in ops:
        if valued and op in ("plus", "iadd-self"):
            return False
        valued = valued or is_value(cls, y)
    return True


def _histories(cls, starts, leaves, kmax, intermediate=True):
    """intermediate=False: no measurements between the steps (only after the last one)."""
    mflags = ([0] + MEAS_CTX[cls]) if intermediate else [0]
    choices = [[op, y] for op in MEAS_OPS for y in leaves] + [["iadd-self", None],
                                                                     ["add_to_data-self", None]]
    for st in starts:
        for k in range(0, kmax + 1):
            for ops in itertools.product(choices, repeat=k):
                if not _hist_admissible(cls, ops):
                    continue
                for ms in itertools.product(mflags, repeat=k):
                    yield st, [[o[0], o[1], m] for o, m in zip(ops, ms)]


def _plan_cases(plan, axis=None, classes=("cf", "sd"), faxis=None):
    """Measurement histories of a plan [(starts, operand leaves, max steps, operand measured
    before use?)] for the classes, on one time axis (or frequency axis: spectral density)."""
    cs = []
    for cls in classes:
        have = set()
        for entry in plan:
            starts, leaves, kmax, opms = entry[:4]
            for st, steps in _histories(cls, starts, leaves, kmax, *entry[4:]):
                for opm in opms:
                    c = {"kind": "measure", "cls": cls, "start": st, "steps": steps,
                         "operand_measured": opm}
                    if axis is not None:
                        c["axis"] = axis
                    if faxis is not None:
                        c["faxis"] = faxis
                    k = hist_str(c) + str(opm)
                    if k not in have:
                        have.add(k)
                        cs.append(c)
    cs.sort(key=lambda c: len(c["steps"]))
    return cs


MEAS_STARTS = [["leaf", "a"], ["leaf", "b"], ["list", ["a", "b"]]]


def measure_cases(tier):
    if tier == "quick":
        plan = [(MEAS_STARTS, ["a", "b"], 2, (False,)),
                (MEAS_STARTS, ["a", "b"], 1, (True,))]
    else:
        plan = [(MEAS_STARTS, ["a", "b"], 2, (False, True)),
                (MEAS_STARTS, ["b"], 3, (False,)),
                ([["leaf", "a"], ["leaf", "b"], ["leaf", "c"], ["list", ["a", "b"]],
                  ["list", ["b", "c", "a"]]], ["a", "b", "c"], 2, (False, True))]
    return _plan_cases(plan)


# =====================================================================================
# Sub-product TIMEAXES: the clauses that involve the axis, on every time axis
# =====================================================================================
# What an axis enters: measure_reorganization_energy() is an integral over the time axis
# (correlation function) / the frequency axis derived from it (spectral density); the
# frequency-domain parts live on TimeAxis.get_FrequencyAxis(); UnderdampedBrownian correlation
# functions are Fourier transforms on the axis; the data that are added have the length of the
# axis.  Every other time axis of axes(tier) x
#   TREES    every '+' tree / in-place chain with <= 3 leaves over the core alphabet (leaves
#            built inside energy_units('1/cm'), additions without a context): all oracles of
#            the addition trees; for sums of analytic components measured == declared (class T
#            tolerance computed for the axis), reorganization_energy_consistent(), parities of
#            the even / odd parts built from the component list
#   LIST     every list-built composite with <= 2 (quick) / <= 3 (thorough) components of the
#            core shapes x temperature per position x route
#   FTSUM    every '+' tree with <= 2 (quick) / <= 3 (thorough) leaves over the shared
#            frequency-domain parts x route
#   MEASURE  every measurement history with <= 1 (quick) / <= 2 (thorough) mutation steps;
#            with one step: operands measured before use or not
# All of them are the generators of the sections above with the axis as one more factor.
def timeaxis_cases(tier):
    q = tier == "quick"
    cs = []
    for ax in axes(tier)[1:]:
        for cls in ("cf", "sd"):
            for t in expressions(CORE[cls], 3, tier):
                nb = len(built_leaves(t))
                deep = all(x in ("a", "b", "c", "self") for x in leaves_of(t))
                cs.append({"cls": cls, "tree": t, "leaf_units": ["1/cm"] * nb, "add_ctx": None,
                           "deep": deep, "axis": ax})
            temps = LIST_T if cls == "cf" else LIST_T[:1]
            syms = [(x, T) for x in LIST_CORE[cls] for T in temps]
            for n in range(1, (2 if q else 3) + 1):
                for sq in itertools.product(syms, repeat=n):
                    for route in (("params", "values") if cls == "cf" else ("params",)):
                        cs.append({"kind": "list", "cls": cls, "seq": [list(x) for x in sq],
                                   "unit": "1/cm", "route": route, "axis": ax})
        alpha = ["E:a", "O:a", "F:a", "E:b", "O:b", "F:b", "E:ab", "O:ab"]
        for n in range(1, (2 if q else 3) + 1):
            for t in all_trees(alpha, n):
                if _ft_admissible(t):
                    for route in ("getter", "constructor"):
                        cs.append({"kind": "ftsum", "tree": t, "route": route, "axis": ax})
        cs += _plan_cases([(MEAS_STARTS, ["a", "b"], 1 if q else 2, (False,)),
                           (MEAS_STARTS, ["a", "b"], 1, (True,))], axis=ax)

    def size(c):
        # simplest first; among equally large cases the integrals before the sums
        if c.get("kind") == "list":
            return (len(c["seq"]), 3)
        if c.get("kind") == "measure":
            return (1 + len(c["steps"]), 0)
        return (len(leaves_of(c["tree"])), 2 if c.get("kind") == "ftsum" else 1)
    cs.sort(key=size)
    return cs


# =====================================================================================
# Sub-product DEGENERATE: operands with zero reorganisation energy
# =====================================================================================
# A component whose reorganisation energy is zero is a legal operand: an analytic one has
# identically vanishing data ("n"; it still has a temperature, a correlation / cut-off time and
# an entry in the component list), a value-defined one may have purely real data ("r": a
# classical correlation function).  Everything the statement says about a sum holds for them:
# data (the real part of "r" is added), reorganisation energy, component list, cut-off time
# (the longest one - "n" has the longest of the alphabet), refusal at different temperatures
# ("m", "t": the same kinds at 77 K).
#   TREES    every '+' tree / in-place chain with <= 3 leaves over {a, b} + degenerate leaves
#            that contains a degenerate leaf (every position, both operand roles) x construction
#            units (as in the main section) x context of the additions
#   REFUSAL  every tree with <= 3 leaves / in-place pair over {a, b, m, t} that mixes the two
#            temperatures
#   MEASURE  every measurement history with <= 2 mutation steps (every route: +=, add_to_data,
#            add_to_data2, x = x + y, self-additions) whose operands are degenerate leaves
#            (quick: measurements between the steps for one-step histories only)
# All oracles are those of the main sections (ledger of separately built components).
DEG_ALPHA = {"quick": {"cf": ["a", "b", "n", "r"], "sd": ["a", "b", "n"]},
             "thorough": {"cf": ["a", "b", "n", "r"], "sd": ["a", "b", "n", "g"]}}


def deg_unit_patterns(tier, n):
    """Construction units of the leaves: complete per-leaf product up to two leaves; three
    leaves: every uniform unit (quick), + every rotation of the unit list (thorough)."""
    U = UNITS[tier]
    if n <= 2:
        return [list(c) for c in itertools.product(U, repeat=n)]
    pats = [[u] * n for u in U]
    if tier == "thorough":
        pats += [[U[(r + i) % len(U)] for i in range(n)] for r in range(1, len(U))]
    return pats


def degenerate_cases(tier):
    cs = []
    for cls in ("cf", "sd"):
        deg = DEGENERATE[cls]
        for t in expressions(DEG_ALPHA[tier][cls], 3, tier):
            lv = leaves_of(t)
            if not any(x in deg for x in lv):
                continue
            for pat in deg_unit_patterns(tier, len(built_leaves(t))):
                for addctx in (None, "1/cm"):
                    if len(lv) == 1 and addctx:
                        continue
                    deep = (addctx is None and all(u == "1/cm" for u in pat)
                            and all(x in ("a", "b", "n", "self") for x in lv))
                    cs.append({"cls": cls, "tree": t, "leaf_units": pat, "add_ctx": addctx,
                               "deep": deep})
        if cls == "cf":
            cold = ("m", "t")
            for n in (2, 3):
                for t in all_trees(["a", "b", "m", "t"], n):
                    lv = leaves_of(t)
                    if admissible(t) and any(x in cold for x in lv) \
                            and not all(x in cold for x in lv):
                        cs.append({"cls": cls, "tree": t, "leaf_units": "1/cm",
                                   "add_ctx": None})
            for x, y in itertools.permutations(["a", "b", "m", "t"], 2):
                t = ["+=", x, y]
                if admissible(t) and (x in cold) != (y in cold):
                    cs.append({"cls": cls, "tree": t, "leaf_units": "1/cm", "add_ctx": None})
    cs.sort(key=lambda c: (len(leaves_of(c["tree"])), c["add_ctx"] is not None))
    for cls, ops in (("cf", ["n", "r"]), ("sd", ["n", "g"])):
        if tier == "quick":
            # one step with every measurement in between, two steps without
            plan = [(MEAS_STARTS, ops, 1, (False,)), (MEAS_STARTS, ops, 2, (False,), False)]
        else:
            plan = [(MEAS_STARTS, ops, 2, (False, True))]
        cs += _plan_cases(plan, classes=(cls,))
    return cs


# =====================================================================================
# Sub-product FREQAXES: spectral densities defined directly on a frequency axis
# =====================================================================================
# Every frequency axis of faxes(tier) (see FAXIS_KINDS: symmetric / one-sided / short / long
# negative branch x with / without the point w = 0, x grid) x
#   TREES    every '+' tree / in-place chain with <= 3 leaves over the core alphabet: all
#            oracles of the addition trees (data, reorganisation energy, component list, copy)
#            on that axis, and the reorganisation energy recovered from the data of the result
#            == the part of the declared one that lies on the axis (reference model
#            mc/refmodels/reorg_integral.py), measured twice
#   MEASURE  every measurement history with <= 1 (quick) / <= 2 (thorough) mutation steps.
def freqaxis_cases(tier):
    q = tier == "quick"
    cs = []
    for fx in faxes(tier):
        for t in expressions(CORE["sd"], 3, tier):
            nb = len(built_leaves(t))
            cs.append({"cls": "sd", "tree": t, "leaf_units": ["1/cm"] * nb, "add_ctx": None,
                       "faxis": fx})
        cs += _plan_cases([(MEAS_STARTS, ["a", "b"], 1 if q else 2, (False,)),
                           (MEAS_STARTS, ["a", "b"], 1, (True,))], classes=("sd",), faxis=fx)

    def size(c):
        if c.get("kind") == "measure":
            return (1 + len(c["steps"]), 0)
        return (len(leaves_of(c["tree"])), 1)
    cs.sort(key=size)
    return cs


# =====================================================================================
# Sub-product CONVERT: temperature bookkeeping of composite spectral densities that are
# converted to correlation functions
# =====================================================================================
# A spectral density does not depend on temperature, so sums of spectral densities whose
# components DECLARE different temperatures exist; the temperature clause of the property is
# decided when such a composite becomes a correlation function:
#   s.get_CorrelationFunction()               components at different temperatures: refused
#   s.get_CorrelationFunction(temperature=T)  every component is taken at T
# Product: every composite with <= 3 components over CONV_ALPHA built by every route ('+'
# tree, in-place chain, list of parameter dictionaries) x every assignment of the temperatures
# LIST_T to the components x every history of <= 2 (quick) / <= 3 (thorough) conversion
# requests, each without a temperature or with an explicit one.
# Oracle (the DECLARED temperatures are those given at construction; a request does not
# change a spectral density), after every request:
#   * no temperature given and declared temperatures differ: refused; otherwise accepted;
#   * the correlation function has the temperature of the request (or the common declared
#     one) in .temperature and in every entry of its component list, as many components as
#     were added, the reorganisation energy of the sum, and data equal to the sum of the
#     separately built and separately converted components' data (at that temperature);
#   * the spectral density - data, reorganisation energy, component list INCLUDING the declared
#     temperatures - and the operand objects it was added from are what they were.
# Keys of requests that follow a request which changed the declared temperatures start with
# sd-conversion/after-declared-temperatures-changed/ (consequences of that change).
CONV_ALPHA = {"quick": ["a", "b"], "thorough": ["a", "b", "c"]}
CONV_T = 200.0


def _conv_build(tree, temps, ta, counter, objs):
    """Evaluate a tree on spectral densities; leaf i is built with the temperature temps[i]."""
    if isinstance(tree, str):
        i = counter[0]
        counter[0] += 1
        f = make_leaf("sd", tree, "1/cm", ta, T=temps[i])
        objs.append(f)
        return f, [i]
    op, l, r = tree
    L, il = _conv_build(l, temps, ta, counter, objs)
    if op == "+=" and r == "self":
        L += L
        return L, il + il
    R, ir = _conv_build(r, temps, ta, counter, objs)
    if op == "+":
        return L + R, il + ir
    L += R
    return L, il + ir


_CONVERTED = {}


def converted_ledger(name, T, ta):
    """Data of the component `name` built on its own and converted on its own at T."""
    key = (name, float(T), int(ta.length), float(ta.step))
    if key not in _CONVERTED:
        f = make_leaf("sd", name, "1/cm", ta, T=float(T))
        _CONVERTED[key] = numpy.array(f.get_CorrelationFunction(temperature=float(T)).data,
                                      copy=True)
    return _CONVERTED[key]


def conv_str(case):
    b = case["build"]
    ts = case["temps"]
    if b[0] == "list":
        s_ = "SpectralDensity([" + ", ".join("%s@%gK" % (n, T) for n, T in zip(b[1], ts)) + "])"
    else:
        it = iter(ts)

        def f(t):
            if t == "self":
                return "<self>"
            if isinstance(t, str):
                return "%s@%gK" % (t, next(it))
            l_ = f(t[1])
            return "(%s%s%s)" % (l_, t[0], f(t[2]))
        s_ = f(b[1])
    return "s=%s; " % s_ + "; ".join(
        "s.get_CorrelationFunction(%s)" % ("" if r is None else "temperature=%g" % r)
        for r in case["requests"])


def eval_convert(case):
    qr = isolation.qr()
    ta = axis_of(case)
    viol = []
    b, temps, requests = case["build"], [float(T) for T in case["temps"]], case["requests"]
    hs = conv_str(case)
    objs = []
    if b[0] == "list":
        names = list(b[1])
        with qr.energy_units("1/cm"):
            s = qr.SpectralDensity(ta, [params_of("sd", n, "1/cm", T)
                                        for n, T in zip(names, temps)])
        idx = list(range(len(names)))
    else:
        s, idx = _conv_build(b[1], temps, ta, [0], objs)
        names = built_leaves(b[1])
    comp_names = [names[i] for i in idx]
    declared = [temps[i] for i in idx]
    route = b[0] if b[0] == "list" else ("in-place" if "+=" in tree_str(b[1]) else "tree")
    got = [float(p.get("T", -1.0)) for p in s.params]
    if got != declared:
        viol.append(("sd-conversion/declared-temperatures-of-composite/%s" % route,
                     "%s: the components of the composite declare %r, they were built with %r"
                     % (hs, got, declared), None))
        return {"nontrivial": True, "violations": _finish(viol, "", axis_suffix(case)),
                "outcome": ["declared-differ", hs]}
    exp_lamb = sum(ledger("sd", n, "1/cm", ta).lamb for n in comp_names)
    snap_data = numpy.array(s.data, copy=True)
    snap_lamb = float(s.lamb)
    # the operand objects other than the composite itself (the target of an in-place chain is
    # the composite)
    objs = [o for o in objs if o is not s]
    snap_ops = [[float(p.get("T", -1.0)) for p in o.params] for o in objs]
    mixed = len(set(declared)) > 1
    changed = False
    outs = []
    for k, req in enumerate(requests):
        pre = "sd-conversion/after-declared-temperatures-changed/" if changed \
            else "sd-conversion/"
        rq = "request-without-temperature" if req is None else "request-with-temperature"
        nth = "%s-request" % ("first", "second", "third")[k]
        where = "%s [%s]" % (hs, nth)
        cf = None
        try:
            cf = s.get_CorrelationFunction() if req is None \
                else s.get_CorrelationFunction(temperature=float(req))
        except Exception as e:
            err = str(e)[:80]
        if req is None and mixed:
            if cf is not None:
                viol.append((pre + "different-temperatures-accepted/%s/%s" % (route, nth),
                             "%s: the components declare the temperatures %r; the composite "
                             "was converted to a correlation function at %r K (component "
                             "temperatures %r)"
                             % (where, declared, getattr(cf, "temperature", None),
                                [p.get("T") for p in cf.params]), None))
            outs.append("refused" if cf is None else "accepted-different-T")
        elif cf is None:
            viol.append((pre + "admissible-conversion-refused/%s/%s" % (route, rq),
                         "%s raised: %s" % (where, err), None))
            outs.append("refused-admissible")
        else:
            T = float(req) if req is not None else declared[0]
            if float(cf.temperature) != T:
                viol.append((pre + "temperature-of-converted/%s/%s" % (route, rq),
                             "%s: correlation function at %r K, expected %r K (declared %r)"
                             % (where, cf.temperature, T, declared), None))
            pts = [p.get("T") for p in cf.params]
            if len(pts) != len(declared):
                viol.append((pre + "component-list-length-of-converted/%s" % route,
                             "%s: %d components recorded, the spectral density has %d"
                             % (where, len(pts), len(declared)), None))
            elif any(x is None or float(x) != T for x in pts):
                viol.append((pre + "component-temperatures-of-converted/%s/%s" % (route, rq),
                             "%s: component temperatures %r of a correlation function at %r K"
                             % (where, pts, T), None))
            if abs(float(cf.lamb) - exp_lamb) > 1e-10 * abs(exp_lamb):
                viol.append((pre + "reorganisation-energy-of-converted/%s" % route,
                             "%s: lamb %r, sum of the components %r"
                             % (where, float(cf.lamb), exp_lamb), None))
            ref = None
            for n in comp_names:
                d = converted_ledger(n, T, ta)
                ref = numpy.array(d, copy=True) if ref is None else ref + d
            ok, e_ = approx(cf.data, ref, TOL)
            if not ok:
                viol.append((pre + "converted-data-not-sum-of-converted-components/%s/%s"
                             % (route, rq),
                             "%s: data differ from the sum of the separately converted "
                             "components at %g K by %g (scale %g)"
                             % (where, T, e_, float(numpy.max(numpy.abs(ref)))), {"err": e_}))
            outs.append(["converted", T, round(float(numpy.abs(cf.data).sum()) * 1e3, 9)])
        # the spectral density and the operands after the request
        how = "by-refused-request" if cf is None else "by-" + rq
        now = [float(p.get("T", -1.0)) for p in s.params]
        if not changed and now != declared:
            changed = True
            viol.append(("sd-conversion/declared-temperatures-changed/%s/%s" % (how, route),
                         "%s: the components of the spectral density declared %r before the "
                         "request and declare %r after it" % (where, declared, now), None))
        ops_now = [[float(p.get("T", -1.0)) for p in o.params] for o in objs]
        if ops_now != snap_ops:
            viol.append(("sd-conversion/operand-declared-temperature-changed/%s/%s"
                         % (how, route),
                         "%s: the spectral densities the composite was added from declared "
                         "%r before the request and declare %r after it"
                         % (where, snap_ops, ops_now), None))
            snap_ops = ops_now
        if not numpy.array_equal(numpy.asarray(s.data), snap_data) \
                or float(s.lamb) != snap_lamb or len(s.params) != len(declared):
            viol.append(("sd-conversion/spectral-density-changed/%s/%s" % (how, route),
                         "%s: data / reorganisation energy / number of components of the "
                         "spectral density changed" % where, None))
    return {"nontrivial": len(declared) >= 2, "violations": _finish(viol, "", axis_suffix(case)),
            "outcome": [hs, outs]}


def convert_cases(tier):
    q = tier == "quick"
    alpha = CONV_ALPHA[tier]
    reqs = [None, CONV_T]
    hists = []
    for k in range(1, (2 if q else 3) + 1):
        hists += [list(h) for h in itertools.product(reqs, repeat=k)]
    builds = []
    for t in expressions(alpha, 3, tier):
        builds.append((["tree", t], len(built_leaves(t))))
    for n in range(1, 4):
        for sq in itertools.product(alpha, repeat=n):
            builds.append((["list", list(sq)], n))
    cs = []
    for b, n in builds:
        for temps in itertools.product(LIST_T, repeat=n):
            for h in hists:
                cs.append({"kind": "convert", "build": b, "temps": list(temps), "requests": h})
    cs.sort(key=lambda c: (len(c["temps"]), len(c["requests"])))
    return cs


# =====================================================================================
# Sub-product REUSED-INPUTS: construction inputs that the CALLER keeps and goes on changing
# =====================================================================================
# The caller owns what it hands to a constructor.  The usual way of making a family of baths
# is ONE parameter dictionary (or one list of dictionaries) that is updated between the
# constructions; whatever the caller does to it afterwards, the functions built before stay the
# functions they were built as - in their data AND in the component list they are rebuilt from
# (left operand of '+', x += x, copy(), frequency-domain parts), in every units context of the
# construction.  Product:
#   form      "dict": every member is built from the SAME dictionary object, which the caller
#             turns into the parameters of the next member (keys that are not needed any more
#             are deleted, values that differ are assigned);
#             "list": every member is a composite built from the SAME list object holding the
#             SAME dictionary objects (the list is shortened / extended, the dictionaries are
#             updated in place);
#             after the last construction the inputs are changed once more (to a component of
#             another type at another temperature that is never constructed; the list gets one
#             more entry), so that the last member is exposed as well;
#   members   every sequence (with repetition, every order) of 2 / 3 members over the alphabet
#             (value-defined members get a new array of values each);
#   context   constructions inside energy_units(U) for every unit U (parameters given in U) and,
#             for spectral densities, OUTSIDE any context (internal units, no context manager at
#             all; the constructor of CorrelationFunction insists on a context);
#   use       afterwards every member is used in every way: as it is (data, reorganisation
#             energy, component list, temperature, cut-off time), as left and right operand in
#             every '+' tree over the members (the same objects, with repetition; thorough:
#             the additions also inside energy_units('1/cm')), copy() without / inside a
#             context, the even / odd frequency-domain parts (getters), and - on a family built
#             anew for each - as target and operand of x += y, x.add_to_data(y),
#             x.add_to_data2(y), x += x, the target then being rebuilt (copy(), target + y).
# Oracle: ledger of the members built separately from fresh dictionaries inside
# energy_units('1/cm'); the members are unchanged by every non-mutating use.
# Not part of it: the ARRAY of values of a value-defined function is that function's data (a
# DFunction holds the array it is given); the caller does not write into it here.
FAM_CTX = {"quick": ["int", "none", "1/cm", "eV"], "thorough": ["int", "none", "1/cm", "eV", "THz"]}
FAM_ALPHA = {   # tier: cls: (alphabet of pairs, alphabet of triples)
    "quick": {"cf": (["a", "b", "c", "v"], ["a", "b"]), "sd": (["a", "b", "c"], ["a", "b"])},
    "thorough": {"cf": (["a", "b", "c", "v", "u", "w"], ["a", "b", "c", "v"]),
                 "sd": (["a", "b", "c", "w", "p", "q"], ["a", "b", "c"])}}
FAM_LISTS = {"quick": ([["a"], ["a", "b"], ["b", "c"]], []),
             "thorough": ([["a"], ["b"], ["c"], ["a", "b"], ["b", "a"], ["b", "c"], ["c", "c"],
                           ["a", "b", "c"]], [["a"], ["a", "b"], ["b", "c"]])}
FAM_POISON = {"cf": dict(ftype="OverdampedBrownian-HighTemperature", reorg=99.0, cortime=17.0,
                         T=77.0),
              "sd": dict(ftype="OverdampedBrownian", reorg=99.0, cortime=17.0, T=77.0)}
FAM_INPLACE = ["iadd", "add_to_data", "add_to_data2"]


class _NoContext(object):
    def __enter__(self):
        return self

    def __exit__(self, *a):
        return False


def _fam_context(ctx):
    return _NoContext() if ctx in (None, "none") else isolation.qr().energy_units(ctx)


def _caller_update(p, new):
    """The caller turns its dictionary p into the parameters `new`."""
    for k in [k for k in p if k not in new]:
        del p[k]
    for k, v in new.items():
        if k not in p or p[k] != v:
            p[k] = v


def _member_params(cls, name, unit):
    if is_value(cls, name):
        vl = VALUE_LEAVES[name]
        return dict(ftype="Value-defined", reorg=_conv(vl["reorg"], unit), T=vl["T"])
    return params_of(cls, name, unit)


def _member_values(cls, name, ta):
    if not is_value(cls, name):
        return None
    t = ta.data
    if VALUE_LEAVES[name]["real"]:
        return (2e-5 * numpy.exp(-t / 250.0) * numpy.cos(t / 40.0)) + 0j
    return (3e-5 * numpy.exp(-t / 80.0) * numpy.cos(t / 37.0) - 1j * 2e-5 * numpy.exp(-t / 60.0))


def build_family(cls, form, members, ctx, ta):
    """The caller's side: one dictionary / one list of dictionaries for the whole family."""
    unit = "int" if ctx == "none" else ctx
    poison = dict(FAM_POISON[cls])
    for k in ENERGY_KEYS:
        if k in poison:
            poison[k] = _conv(poison[k], unit)
    fam = []
    if form == "dict":
        p = {}
        for name in members:
            _caller_update(p, _member_params(cls, name, unit))
            vals = _member_values(cls, name, ta)
            with _fam_context(ctx):
                fam.append(_cls(cls)(ta, p) if vals is None else _cls(cls)(ta, p, values=vals))
        _caller_update(p, poison)
    else:
        lst, pool = [], []
        for names in members:
            while len(lst) > len(names):
                lst.pop()
            while len(lst) < len(names):
                if len(pool) <= len(lst):
                    pool.append({})
                lst.append(pool[len(lst)])
            for d_, name in zip(lst, names):
                _caller_update(d_, _member_params(cls, name, unit))
            with _fam_context(ctx):
                fam.append(_cls(cls)(ta, lst))
        for d_ in pool:
            _caller_update(d_, poison)
        lst.append(dict(poison))
    return fam


def _full_state(f):
    return {"data": numpy.array(f.data, copy=True), "lamb": float(f.lamb),
            "temperature": float(getattr(f, "temperature", -1.0)),
            "cutoff_time": float(getattr(f, "cutoff_time", -1.0)),
            "params": [dict(p) for p in f.params]}


def _state_changes(f, st):
    """Names of the observables of f that are not what the record st says."""
    out = []
    if not numpy.array_equal(numpy.asarray(f.data), st["data"]):
        out.append("data")
    if float(f.lamb) != st["lamb"]:
        out.append("reorganisation-energy")
    if float(getattr(f, "temperature", -1.0)) != st["temperature"]:
        out.append("temperature")
    if float(getattr(f, "cutoff_time", -1.0)) != st["cutoff_time"]:
        out.append("cutoff-time")
    now = [dict(p) for p in f.params]
    if len(now) != len(st["params"]):
        out.append("component-list-length")
    elif now != st["params"]:
        out.append("component-list-content")
    return out


def _params_match(got, want):
    """Component dictionaries (internal units) against those of the ledger."""
    if len(got) != len(want):
        return False
    for g, w in zip(got, want):
        if set(g.keys()) != set(w.keys()):
            return False
        for k in w:
            if isinstance(w[k], float) and not isinstance(w[k], bool):
                try:
                    if abs(float(g[k]) - w[k]) > 1e-10 * abs(w[k]):
                        return False
                except Exception:
                    return False
            elif g[k] != w[k]:
                return False
    return True


def check_against_ledger(cls, f, names, ta, viol, pre, tag, where):
    """Every observable of f against the ledger sum of the separately built components."""
    comps = [ledger(cls, n, "1/cm", ta) for n in names]
    exp_data = sum((c.data for c in comps[1:]), numpy.array(comps[0].data, copy=True))
    exp_lamb = sum(c.lamb for c in comps)
    ok, err = approx(f.data, exp_data, TOL)
    if not ok:
        viol.append(("%s/data-not-sum-of-components/%s" % (pre, tag),
                     "%s: data differ from the sum of the separately built components' data by "
                     "%g (scale %g)" % (where, err, float(numpy.max(numpy.abs(exp_data)))),
                     {"err": err}))
    if abs(float(f.lamb) - exp_lamb) > 1e-10 * abs(exp_lamb):
        viol.append(("%s/reorganisation-energy-not-additive/%s" % (pre, tag),
                     "%s: lamb %r, sum of the components %r" % (where, float(f.lamb), exp_lamb),
                     None))
    with isolation.qr().energy_units("1/cm"):
        declared = float(f.get_reorganization_energy())
    decl_exp = sum(declared_reorg(cls, n) for n in names)
    if abs(declared - decl_exp) > 1e-6 * decl_exp:
        viol.append(("%s/declared-reorganisation-energy/%s" % (pre, tag),
                     "%s: get_reorganization_energy() = %r 1/cm, declared sum %r"
                     % (where, declared, decl_exp), None))
    want = [p for c in comps for p in c.params]
    got = [dict(p) for p in f.params]
    if len(got) != len(want):
        viol.append(("%s/component-list-length/%s" % (pre, tag),
                     "%s: %d components recorded, %d added" % (where, len(got), len(want)), None))
    elif not _params_match(got, want):
        viol.append(("%s/component-list-content/%s" % (pre, tag),
                     "%s: recorded components %r, the components are %r" % (where, got, want),
                     None))
    if cls == "cf":
        if float(f.temperature) != comps[0].temperature:
            viol.append(("%s/temperature/%s" % (pre, tag),
                         "%s: temperature %r, components at %r"
                         % (where, float(f.temperature), comps[0].temperature), None))
        wct = max(c.cutoff_time for c in comps)
        if abs(float(f.cutoff_time) - wct) > 1e-9 * abs(wct):
            viol.append(("%s/cutoff-time/%s" % (pre, tag),
                         "%s: cut-off time %r, the longest one of the components is %r"
                         % (where, float(f.cutoff_time), wct), None))


_FTLEDGER = {}


def ft_ledger(name, part, ta):
    key = (name, part, int(ta.length), float(ta.step))
    if key not in _FTLEDGER:
        f = make_leaf("cf", name, "1/cm", ta)
        _FTLEDGER[key] = numpy.array(getattr(f, "get_" + FT_CLASS[part])().data, copy=True)
    return _FTLEDGER[key]


def fam_str(case):
    ms = case["members"]
    s = ", ".join(m if isinstance(m, str) else "[" + ",".join(m) + "]" for m in ms)
    return "family (%s) from one %s, built %s" % (
        s, "dictionary" if case["form"] == "dict" else "list of dictionaries",
        "outside any context" if case["ctx"] == "none" else "inside energy_units(%r)" % case["ctx"])


def _fam_ok(t, valued):
    if isinstance(t, str):
        return True
    _, l, r = t
    if any(x in valued for x in leaves_of(l)):
        return False
    return _fam_ok(l, valued) and _fam_ok(r, valued)


def _fam_trees(n, kmax, valued):
    """Every '+' tree with 2 .. kmax leaves over the member indices; value-defined members only
    as right-hand operands."""
    out = []
    idx = [str(i) for i in range(n)]
    for k in range(2, kmax + 1):
        for t in all_trees(idx, k):
            if _fam_ok(t, valued):
                out.append(t)
    return out


def _fam_eval(t, fam):
    if isinstance(t, str):
        return fam[int(t)]
    return _fam_eval(t[1], fam) + _fam_eval(t[2], fam)


def eval_family(case):
    cls, form, members, ctx = case["cls"], case["form"], case["members"], case["ctx"]
    ta = axis_of(case)
    viol = []
    hs = fam_str(case)
    names_of = [[m] if isinstance(m, str) else list(m) for m in members]
    flat = [x for ns in names_of for x in ns]
    suffix = _special_suffix(cls, flat)
    built = "built-outside-contexts" if ctx == "none" else "built-in-%s" % ctx
    tagb = "%s/%s/%s" % (cls, form, built)
    pre = "caller-reused-inputs"
    n = len(members)
    valued = set(str(i) for i in range(n) if any(is_value(cls, x) for x in names_of[i]))
    nev = [0]

    def attempt(what, use, fn):
        nev[0] += 1
        try:
            return fn()
        except Exception as e:
            viol.append(("%s/use-raises/%s/%s" % (pre, use, tagb),
                         "%s; %s raised %s: %s" % (hs, what, type(e).__name__, str(e)[:100]),
                         None))
            return None

    fam = build_family(cls, form, members, ctx, ta)
    # 1. the members as they are, after the caller has gone on changing its inputs
    for k, f in enumerate(fam):
        check_against_ledger(cls, f, names_of[k], ta, viol, pre, "member-as-it-is/" + tagb,
                             "%s; member %d" % (hs, k + 1))
    snaps = [_full_state(f) for f in fam]

    def intact(after):
        """The members after a non-mutating use.  A use that changes a member ends the case:
        every later use would see another family (and a component list that grows with every
        use grows without bound)."""
        for k, f in enumerate(fam):
            ch = _state_changes(f, snaps[k])
            if ch:
                viol.append(("%s/member-changed-by-use-as-operand/%s/%s"
                             % (pre, "+".join(ch), tagb),
                             "%s; member %d changed (%s) by %s"
                             % (hs, k + 1, ", ".join(ch), after), None))
                return False
        return True

    def ended():
        return {"nontrivial": True, "n": nev[0],
                "violations": _finish(viol, suffix, axis_suffix(case)),
                "outcome": [hs, "member-changed-by-use"]}
    # 2. every '+' tree over the members
    for addctx in case["add_ctxs"]:
        use = "plus" if addctx is None else "plus-in-%s" % addctx
        for t in _fam_trees(n, case["max_leaves"], valued):
            def go(t=t, addctx=addctx):
                with _fam_context(addctx):
                    return _fam_eval(t, fam)
            res = attempt(tree_str(t), use, go)
            if res is not None:
                lv = [x for i in leaves_of(t) for x in names_of[int(i)]]
                check_against_ledger(cls, res, lv, ta, viol, pre, "%s/%s" % (use, tagb),
                                     "%s; %s over the members (numbered from 0)"
                                     % (hs, tree_str(t)))
            if not intact("%s over the members (numbered from 0)" % tree_str(t)):
                return ended()
    # 3. rebuilt from the component list: copy(), frequency-domain parts
    for k, f in enumerate(fam):
        if str(k) in valued:
            continue
        for cctx in (None, "1/cm"):
            use = "copy" if cctx is None else "copy-in-%s" % cctx

            def go(f=f, cctx=cctx):
                with _fam_context(cctx):
                    return f.copy()
            cp = attempt("copy() of member %d" % (k + 1), use, go)
            if cp is not None:
                check_against_ledger(cls, cp, names_of[k], ta, viol, pre,
                                     "%s/%s" % (use, tagb),
                                     "%s; copy() of member %d" % (hs, k + 1))
            if not intact("copy() of member %d" % (k + 1)):
                return ended()
        if cls == "cf" and all(x in ("a", "b", "c", "e") for x in names_of[k]):
            for part in ("E", "O"):
                ft = attempt("get_%s() of member %d" % (FT_CLASS[part], k + 1),
                             "ft-part-" + part, lambda f=f, part=part:
                             getattr(f, "get_" + FT_CLASS[part])())
                if ft is None:
                    continue
                ref = None
                for x in names_of[k]:
                    d_ = ft_ledger(x, part, ta)
                    ref = numpy.array(d_, copy=True) if ref is None else ref + d_
                ok, err = approx(ft.data, ref, TOL)
                if not ok:
                    viol.append(("%s/ft-part-not-that-of-the-components/%s/%s"
                                 % (pre, FT_PARITY[part][0], tagb),
                                 "%s; the %s frequency-domain part of member %d differs from "
                                 "the part of the separately built components by %g (scale %g)"
                                 % (hs, FT_PARITY[part][0], k + 1, err,
                                    float(numpy.max(numpy.abs(ref)))), {"err": err}))
    if not intact("taking its frequency-domain parts"):
        return ended()
    # 4. in-place routes, each on a family built anew
    progs = [(op, i, j) for op in FAM_INPLACE for i in range(n) for j in range(n) if i != j]
    progs += [("iadd-self", i, i) for i in range(n) if str(i) not in valued]
    last = None
    for op, i, j in progs:
        fam2 = build_family(cls, form, members, ctx, ta)
        x, y = fam2[i], fam2[j]
        sy = _full_state(y)
        what = "member %d %s member %d" % (i + 1, op, j + 1)

        def go(x=x, y=y, op=op):
            if op in ("iadd", "iadd-self"):
                x += y
            elif op == "add_to_data":
                x.add_to_data(y)
            else:
                x.add_to_data2(y)
            return x
        if attempt(what, op, go) is None:
            continue
        lv = names_of[i] + names_of[j]
        check_against_ledger(cls, x, lv, ta, viol, pre, "%s/%s" % (op, tagb),
                             "%s; %s" % (hs, what))
        if y is not x:
            ch = _state_changes(y, sy)
            if ch:
                viol.append(("%s/in-place-addition-changed-operand/%s/%s/%s"
                             % (pre, op, "+".join(ch), tagb),
                             "%s; %s changed the operand (%s)" % (hs, what, ", ".join(ch)), None))
        last = x
        if len(x.params) != len(lv) or len(y.params) != len(names_of[j]):
            continue        # reported above; nothing is rebuilt from such a component list
        if any(is_value(cls, v) for v in lv):
            continue
        cp = attempt("copy() after " + what, op + "-then-copy", lambda x=x: x.copy())
        if cp is not None:
            check_against_ledger(cls, cp, lv, ta, viol, pre, "%s-then-copy/%s" % (op, tagb),
                                 "%s; copy() after %s" % (hs, what))
        if y is not x:
            sm = attempt("target + operand after " + what, op + "-then-plus",
                         lambda x=x, y=y: x + y)
            if sm is not None:
                check_against_ledger(cls, sm, lv + names_of[j], ta, viol, pre,
                                     "%s-then-plus/%s" % (op, tagb),
                                     "%s; (target + operand) after %s" % (hs, what))
    out = numpy.asarray((last if last is not None else fam[0]).data)
    return {"nontrivial": True, "n": nev[0], "violations": _finish(viol, suffix, axis_suffix(case)),
            "outcome": [hs, round(float(numpy.abs(out).sum()), 9),
                        [round(float(f.lamb) * 1e6, 6) for f in fam]]}


def family_cases(tier):
    q = tier == "quick"
    cs = []
    for cls in ("cf", "sd"):
        pairs, triples = FAM_ALPHA[tier][cls]
        seqs = [("dict", list(s)) for s in itertools.product(pairs, repeat=2)]
        seqs += [("dict", list(s)) for s in itertools.product(triples, repeat=3)]
        l2, l3 = FAM_LISTS[tier]
        seqs += [("list", [list(m) for m in s]) for s in itertools.product(l2, repeat=2)]
        seqs += [("list", [list(m) for m in s]) for s in itertools.product(l3, repeat=3)]
        for form, ms in seqs:
            for ctx in FAM_CTX[tier]:
                if ctx == "none" and cls == "cf":
                    continue        # CorrelationFunction cannot be constructed outside a context
                cs.append({"kind": "family", "cls": cls, "form": form, "members": ms,
                           "ctx": ctx, "max_leaves": len(ms) if q else 3,
                           "add_ctxs": [None] if q else [None, "1/cm"]})
    cs.sort(key=lambda c: (len(c["members"]), c["form"] == "list"))
    return cs


# =====================================================================================
# Sub-product REFUSED: a refused addition is no addition
# =====================================================================================
# One object x (a leaf or a list-built composite) and a history of <= 2 (quick) / <= 3
# (thorough) steps; every step is an addition through one of the PUBLIC routes
#   x = x + y | x += y | x.add_to_data(y) | x.add_to_data2(y)
# with an operand y that is either admissible or has to be refused:
#   "d"  an analytic component at another temperature (its cut-off time differs from x's),
#   "k"  a value-defined function at another temperature with a non-zero reorganisation energy,
#   "D"  a composite at another temperature holding the longest cut-off time of all,
#   "X"  a function on ANOTHER time axis (the statement speaks of one axis; the library refuses:
#        whenever it does, the same clauses apply; spectral densities know this refusal only);
# every history contains at least one step that has to be refused; the exception is caught by
# the caller, who goes on using x.
# Oracle.  After a refused step EVERY observable of x is what it was before the step: data,
# reorganisation energy (attribute and get_reorganization_energy()), temperature, cut-off time,
# component list (length and content); the operand is unchanged as well.  After every step
# (refused or not) x is the ledger sum of the components that were really added.  After the last
# step x is used further: x + c, c + x, copy(), measured == declared reorganisation energy and
# reorganization_energy_consistent() (correlation function).
REF_OPS = ["plus", "iadd", "add_to_data", "add_to_data2"]
REF_LEGAL = {"quick": ["b"], "thorough": ["b", "c"]}
REF_ILLEGAL = {"cf": ["d", "k", "D", "X"], "sd": ["X"]}
REF_REASON = {"d": "different-temperature", "k": "different-temperature/value-defined-operand",
              "D": "different-temperature/composite-operand", "X": "different-axis"}
REF_SYM = {"plus": "x=x+%s", "iadd": "x+=%s", "add_to_data": "x.add_to_data(%s)",
           "add_to_data2": "x.add_to_data2(%s)"}


def ref_str(case):
    st = case["start"]
    s = st[1] if st[0] == "leaf" else "list[" + ",".join(st[1]) + "]"
    return "; ".join(["x=" + s] + [REF_SYM[op] % y for op, y in case["steps"]])


def _ref_operand(cls, y, ta):
    qr = isolation.qr()
    if y == "X":
        other = qr.TimeAxis(0.0, int(ta.length), 2.0 * float(ta.step))
        return make_leaf(cls, "b", "1/cm", other)
    if y == "D":
        with qr.energy_units("1/cm"):
            return qr.CorrelationFunction(ta, [params_of("cf", "d", "1/cm"),
                                               params_of("cf", "f", "1/cm")])
    return make_leaf(cls, y, "1/cm", ta)


def eval_refused(case):
    qr = isolation.qr()
    cls, start, steps = case["cls"], case["start"], case["steps"]
    ta = axis_of(case)
    viol = []
    hs = ref_str(case)
    pre = "refused-addition"
    if start[0] == "leaf":
        names = [start[1]]
        x = make_leaf(cls, start[1], "1/cm", ta)
    else:
        names = list(start[1])
        with qr.energy_units("1/cm"):
            x = _cls(cls)(ta, [params_of(cls, n, "1/cm") for n in names])
    outs = []

    def done(extra):
        return {"nontrivial": True, "violations": _finish(viol, "", axis_suffix(case)),
                "outcome": [hs, outs, extra]}

    for k, (op, yname) in enumerate(steps):
        where = "%s [step %d]" % (hs, k + 1)
        y = _ref_operand(cls, yname, ta)
        illegal = yname in REF_REASON
        sx, sy = _full_state(x), _full_state(y)
        with qr.energy_units("1/cm"):
            dx = float(x.get_reorganization_energy())
        old, err = x, None
        try:
            if op == "plus":
                x = old + y
            elif op == "iadd":
                x += y
            elif op == "add_to_data":
                x.add_to_data(y)
            else:
                x.add_to_data2(y)
        except Exception as e:
            err = str(e)[:80]
            x = old
        ch = _state_changes(y, sy)
        if ch:
            viol.append(("%s/operand-changed/%s/%s/%s/%s"
                         % (pre, cls, op, "refused" if err else "accepted", "+".join(ch)),
                         "%s: the operand changed (%s)" % (where, ", ".join(ch)), None))
        if illegal:
            reason = REF_REASON[yname]
            if err is None:
                if yname == "X":
                    # functions on different axes: outside the statement, nothing to compare
                    outs.append("other-axis-accepted")
                    return done(None)
                viol.append(("different-temperatures-accepted/%s/%s/%s" % (cls, op, reason),
                             "%s: temperatures %r and %r were added"
                             % (where, sx["temperature"], sy["temperature"]), None))
                outs.append("accepted-different-T")
                return done(None)
            outs.append("refused")
            ch = _state_changes(old, sx)
            with qr.energy_units("1/cm"):
                dnow = float(old.get_reorganization_energy())
            if dnow != dx and "reorganisation-energy" not in ch:
                ch.append("reorganisation-energy")
            for c_ in ch:
                viol.append(("%s/left-operand-changed/%s/%s/%s/%s" % (pre, cls, op, reason, c_),
                             "%s: the refused addition (%s) changed the %s of x (reorganisation "
                             "energy %r -> %r 1/cm, cut-off time %r -> %r, %d -> %d components)"
                             % (where, err, c_, dx, dnow, sx["cutoff_time"],
                                float(getattr(old, "cutoff_time", -1.0)), len(sx["params"]),
                                len(old.params)), None))
        else:
            if err is not None:
                viol.append(("admissible-addition-refused/%s/%s/in-a-history-with-refusals"
                             % (cls, op), "%s raised: %s" % (where, err), None))
                outs.append("refused-admissible")
                return done(None)
            outs.append("added")
            names = names + [yname]
            if op == "plus":
                ch = _state_changes(old, sx)
                if ch:
                    viol.append(("addition-changed-left-operand/%s/in-a-history-with-refusals/%s"
                                 % (cls, "+".join(ch)), "%s: x + y changed x" % where, None))
        check_against_ledger(cls, x, names, ta, viol, pre,
                             "history/%s/after-%s-%s" % (cls, "refused" if illegal else "accepted",
                                                         op), where)
    # x is used further
    where = hs + " [afterwards]"
    c = make_leaf(cls, "c", "1/cm", ta)
    for use, fn, lv in (("x-plus-c", lambda: x + c, names + ["c"]),
                        ("c-plus-x", lambda: c + x, ["c"] + names),
                        ("copy", lambda: x.copy(), names)):
        try:
            res = fn()
        except Exception as e:
            viol.append(("%s/later-use-raises/%s/%s" % (pre, cls, use),
                         "%s: %s raised %s" % (where, use, str(e)[:80]), None))
            continue
        check_against_ledger(cls, res, lv, ta, viol, pre, "later-%s/%s" % (use, cls),
                             "%s: %s" % (where, use))
    meas = 0.0
    if cls == "cf":
        with qr.energy_units("1/cm"):
            meas = float(x.measure_reorganization_energy())
            cons = bool(x.reorganization_energy_consistent())
            decl = float(x.get_reorganization_energy())
        want = sum(declared_reorg("cf", n) for n in names)
        tolq = cf_measure_tolerance(names, ta)
        if not abs(meas - want) <= tolq * want:
            viol.append(("%s/measured-reorganisation-energy/cf" % pre,
                         "%s: measured %r 1/cm, the components that were added declare %r"
                         % (where, meas, want), None))
        if not abs(meas - decl) <= tolq * want + 1e-9 * abs(decl):
            viol.append(("%s/measured-differs-from-declared/cf" % pre,
                         "%s: measured %r 1/cm, get_reorganization_energy() %r"
                         % (where, meas, decl), None))
        if not cons:
            viol.append(("%s/reorganization-energy-consistent-false/cf" % pre,
                         "%s: reorganization_energy_consistent() is False" % where, None))
    return done([round(float(x.lamb) * 1e6, 6), round(meas, 6),
                 round(float(numpy.abs(numpy.asarray(x.data)).sum()), 9)])


def refused_cases(tier):
    """quick: <= 2 steps over one admissible and every inadmissible operand; thorough: <= 2
    steps over two admissible and every inadmissible operand, 3 steps over {b} + {d, X}."""
    q = tier == "quick"
    cs = []
    for cls in ("cf", "sd"):
        plans = [(REF_LEGAL[tier] + REF_ILLEGAL[cls], (1, 2))]
        if not q:
            plans.append((["b"] + [y for y in REF_ILLEGAL[cls] if y in ("d", "X")], (3,)))
        for operands, lengths in plans:
            choices = [[op, y] for op in REF_OPS for y in operands]
            for st in MEAS_STARTS:
                for k in lengths:
                    for steps in itertools.product(choices, repeat=k):
                        if any(y in REF_REASON for _, y in steps):
                            cs.append({"kind": "refused", "cls": cls, "start": st,
                                       "steps": [list(s_) for s_ in steps]})
    cs.sort(key=lambda c: len(c["steps"]))
    return cs


KINDS = {"list": eval_list, "ftsum": eval_ftsum, "measure": eval_measure,
         "convert": eval_convert, "family": eval_family, "refused": eval_refused}


def eval_case(case):
    return KINDS.get(case.get("kind"), eval_tree)(case)



def _finish(viol, suffix, axis_sfx=""):
    """One violation per key; cases containing a component of the extended / optional ftypes
    carry those ftypes in every result-level key (per-component keys name the ftype anyway);
    cases on another than the original time axis carry the axis in every key."""
    seen, out = set(), []
    for v in viol:
        key = (v[0] if v[0].startswith("component-") else v[0] + suffix) + axis_sfx
        if key not in seen:
            seen.add(key)
            out.append((key,) + tuple(v[1:]))
    return out


def replay(case):
    return eval_case(case)["violations"]


def all_trees(leaves, n):
    """Every binary tree over '+' with exactly n leaves drawn (with repetition) from leaves."""
    if n == 1:
        return list(leaves)
    out = []
    for k in range(1, n):
        for l in all_trees(leaves, k):
            for r in all_trees(leaves, n - k):
                out.append(["+", l, r])
    return out


def admissible(tree):
    """value-defined functions only as right-hand operands: no '+' whose LEFT operand
    contains v (it would have to be rebuilt from parameters)."""
    if isinstance(tree, str):
        return True
    op, l, r = tree
    if op == "+" and any(has(l, v) for v in VALUE_LEAVES):
        return False
    if op == "+=" and r == "self" and any(has(l, v) for v in VALUE_LEAVES):
        return False
    return admissible(l) and (r == "self" or admissible(r))


def unit_patterns(tier, n):
    """Construction units of the n built leaves (see the module docstring)."""
    U = UNITS[tier]
    if n <= 2:
        pats = [list(c) for c in itertools.product(U, repeat=n)]
    else:
        pats = [[u] * n for u in U]
        pats += [[U[(r + i) % len(U)] for i in range(n)] for r in range(len(U))]
        pats += [[LEGACY_PATTERNS["mixed"][i % 3] for i in range(n)]]
        if tier == "thorough" and n == 3:
            pats += [list(c) for c in itertools.product(U[:3], repeat=n)]
    out = []
    for p_ in pats:
        if p_ not in out:
            out.append(p_)
    return out


def expressions(alpha, kmax, tier):
    """All '+' trees with <= kmax leaves and all in-place chains over the alphabet."""
    trees = []
    for n in range(1, kmax + 1):
        trees += [t for t in all_trees(alpha, n)]
    trees = [t for t in trees if admissible(t)]
    # in-place chains: x += y ; (x += y) += z ; x += x
    base = [t for t in trees if len(leaves_of(t)) <= kmax - 1]
    inpl = []
    for x in base:
        for y in base:
            if len(leaves_of(x)) + len(leaves_of(y)) <= kmax:
                inpl.append(["+=", x, y])
        if len(leaves_of(x)) * 2 <= kmax + 1:
            inpl.append(["+=", x, "self"])
    inpl2 = []
    if tier == "thorough":
        for t in inpl:
            if t[2] != "self" and len(leaves_of(t)) <= kmax - 1:
                for y in alpha:
                    inpl2.append(["+=", t, y])
    inpl = [t for t in inpl + inpl2 if admissible(t)]
    return trees + inpl


def constructible(cls, name):
    """Can the component be built at all (in internal units) on the tree under test?"""
    qr = isolation.qr()
    try:
        with isolation.quiet():
            make_leaf(cls, name, "int", qr.TimeAxis(0.0, NT, DT))
        return True
    except Exception:
        return False
    finally:
        isolation.reset_manager()


def tree_cases(tier):
    kmax = 3 if tier == "quick" else 4
    cs = []
    for cls in ("cf", "sd"):
        core, full = CORE[cls], CORE[cls] + EXT[cls]
        # the extended ftypes take part in everything one level below the bound
        exprs = expressions(full, kmax - 1, tier)
        have = set(tree_str(t) for t in exprs)
        exprs += [t for t in expressions(core, kmax, tier) if tree_str(t) not in have]
        # optional ftype variants that CAN be constructed on the tree under test join the
        # alphabet up to two leaves (complete per-leaf product with every other ftype)
        avail = [x for x in OPTIONAL[cls] if constructible(cls, x)]
        if avail:
            have = set(tree_str(t) for t in exprs)
            exprs += [t for t in expressions(full + avail, 2, tier) if tree_str(t) not in have]
        for t in exprs:
            n = len(leaves_of(t))
            for pat in unit_patterns(tier, len(built_leaves(t))):
                for addctx in (None, "1/cm"):
                    if n == 1 and addctx:
                        continue
                    deep = (addctx is None and all(u == "1/cm" for u in pat)
                            and all(x in ("a", "b", "c", "self") for x in leaves_of(t)))
                    cs.append({"cls": cls, "tree": t, "leaf_units": pat, "add_ctx": addctx,
                               "deep": deep})
        # ftype variants the reference tree cannot construct: probe x, x+x, x+=x
        for x in OPTIONAL[cls]:
            if x in avail:
                continue
            for t in (x, ["+", x, x], ["+=", x, "self"]):
                for u in UNITS[tier]:
                    cs.append({"cls": cls, "tree": t, "leaf_units": [u], "add_ctx": None,
                               "optional": True})
        # different temperatures: every position of the odd leaf in trees up to 3 leaves
        if cls == "cf":
            for n in (2, 3):
                for t in all_trees(["a", "b", "d"], n):
                    lv = leaves_of(t)
                    if "d" in lv and len(set(lv)) > 1 and not all(x == "d" for x in lv):
                        cs.append({"cls": cls, "tree": t, "leaf_units": "1/cm", "add_ctx": None})
            for x, y in itertools.permutations(["a", "b", "d"], 2):
                if "d" in (x, y):
                    cs.append({"cls": cls, "tree": ["+=", x, y], "leaf_units": "1/cm",
                               "add_ctx": None})
    cs.sort(key=lambda c: (len(leaves_of(c["tree"])), c["add_ctx"] is not None))
    return cs


SECTIONS = [("caller-reused-inputs", family_cases), ("refused-additions", refused_cases),
            ("addition-trees", tree_cases), ("list-built-composites", list_cases),
            ("sums-of-frequency-domain-parts", ftsum_cases),
            ("measurement-histories", measure_cases),
            ("degenerate-operands", degenerate_cases),
            ("frequency-axes", freqaxis_cases),
            ("converted-composites", convert_cases),
            ("time-axes", timeaxis_cases)]


def cases(tier):
    out = []
    for _, gen in SECTIONS:
        out += gen(tier)
    return out


def run(run):
    run.rule = ("every binary '+' tree (all groupings, all orders, leaves with repetition) and "
                "every in-place chain over the leaf alphabet (every ftype that can be built from "
                "parameters) x construction unit of every leaf (complete per-leaf product up to "
                "2 leaves, uniform + all rotations above) x units context of the additions, for "
                "CorrelationFunction and SpectralDensity; every list-built composite (all "
                "sequences of components x temperature per position x unit x route); every '+' "
                "tree over shared frequency-domain part objects x route to the part, evaluated "
                "twice; every history of measurements and mutation routes on one object; "
                "every other time axis of the product step x window x (addition trees over the "
                "core alphabet, list-built composites, sums of frequency-domain parts, "
                "measurement histories); "
                "operands with zero reorganisation energy (every tree / chain containing one, "
                "refusals, measurement histories); spectral densities on every frequency axis of "
                "the product (negative branch: equal / short / absent / long) x (with / without "
                "w = 0) x grid, under addition trees and measurement histories; composite "
                "spectral densities x declared temperature per component x history of conversion "
                "requests with / without an explicit temperature; "
                "families of functions built from ONE dictionary / list of dictionaries of the "
                "caller that is changed between and after the constructions x construction "
                "context x every later use of every member; histories of additions through every "
                "public route containing refused steps (other temperature / other axis) x every "
                "observable of the left operand afterwards; "
                "non-trivial = at least two leaves / components / one mutation step")
    run.assumptions = ["components' own data (each built separately by the library) are the "
                       "additivity ledger; the analytic formulas themselves belong to C06",
                       "value-defined functions only as right-hand operands (as the property says)",
                       "temperature refusal is checked for correlation functions only (a spectral "
                       "density does not depend on temperature)",
                       "measured reorganisation energy / FT parity only for the ftypes the "
                       "library calls analytical (OverdampedBrownian, -HighTemperature); spectral "
                       "density histories: OverdampedBrownian with the computed tail beyond the "
                       "last frequency (class T) and UnderdampedBrownian (2e-3), measured in "
                       "internal units only (SpectralDensity.measure_reorganization_energy does "
                       "not convert to the current units)",
                       "measured == declared (correlation function): class T tolerance computed "
                       "per axis = truncated tail exp(-t_last/tau) + error bound of the "
                       "second-order rule (h/tau)^2/12 + 1e-10, never above 1e-3; all windows "
                       ">= 15 correlation times of the slowest component",
                       "frequency-domain parts: a complex-valued part (FTCorrelationFunction) is "
                       "only added to a complex-valued left operand; FTCorrelationFunction of a "
                       "single component only (of a composite it is not part of the statement)",
                       "ftype variants that cannot be constructed at all (in internal units) are "
                       "probed only: %r" % OPTIONAL,
                       "spectral density on a user-supplied frequency axis: measured == (1/pi) "
                       "int J(w)/w dw over the part of [0, infinity) that the axis covers "
                       "(reference model: closed form / adaptive quadrature of the analytic "
                       "formulas), class Q tolerance 5e-4 (worst observed on the reference tree "
                       "6.8e-5, UnderdampedBrownian at 3 points per line width; smallest effect to "
                       "resolve 1.2e-2); axes end at w > 0",
                       "the temperatures a spectral density declares are those given at "
                       "construction; get_CorrelationFunction(temperature=T) applies T to that "
                       "request only; converted data are compared with the sum of the separately "
                       "converted components (the conversion is linear at a fixed temperature)",
                       "zero-reorganisation-energy operands: the value-defined one has purely real "
                       "data (declared and measured reorganisation energy 0)",
                       "reused construction inputs: the caller changes its parameter dictionaries "
                       "/ its list, not the array of values of a value-defined function (that array "
                       "IS the function's data); CorrelationFunction cannot be constructed outside "
                       "an energy_units context (the library insists), SpectralDensity can",
                       "an operand on another time axis is outside the statement: when the library "
                       "refuses it the clauses of a refused addition apply, when it does not the "
                       "history ends without a verdict"]
    q = run.tier == "quick"
    run.bounds = {"max_leaves": 3 if q else 4, "time_axis": [NT, DT],
                  "time_axes": {"axes_length_step": axes(run.tier), "max_leaves": 3,
                                "list_max_components": 2 if q else 3,
                                "ft_part_sums_max_leaves": 2 if q else 3,
                                "max_mutation_steps": 1 if q else 2},
                  "max_leaves_extended_ftypes": 2 if q else 3,
                  "construction_units": UNITS[run.tier],
                  "list_built": {"max_components": 3 if q else 4, "temperatures": LIST_T,
                                 "max_components_all_ftypes": 3},
                  "ft_part_sums": {"max_leaves": 3 if q else 4},
                  "measurement_histories": {"max_mutation_steps": 2 if q else 3},
                  "degenerate_operands": {"max_leaves": 3, "max_mutation_steps": 2},
                  "frequency_axes": {"axes_kind_points_step": faxes(run.tier), "max_leaves": 3,
                                     "max_mutation_steps": 1 if q else 2},
                  "caller_reused_inputs": {"family_sizes": [2, 3], "alphabets": FAM_ALPHA[run.tier],
                                           "list_members": FAM_LISTS[run.tier],
                                           "construction_contexts": FAM_CTX[run.tier],
                                           "max_leaves_of_sums": "family size" if q else 3},
                  "refused_additions": {"max_steps": 2 if q else 3, "routes": REF_OPS,
                                        "admissible_operands": REF_LEGAL[run.tier],
                                        "refused_operands": REF_ILLEGAL},
                  "converted_composites": {"max_components": 3, "alphabet": CONV_ALPHA[run.tier],
                                           "declared_temperatures": LIST_T,
                                           "explicit_temperature": CONV_T,
                                           "max_requests": 2 if q else 3}}
    import time
    t0 = time.time()
    cap = 55 if run.tier == "quick" else 720
    for name, gen in SECTIONS:
        run_grid(run, gen(run.tier), eval_case, cap_s=max(1.0, cap - (time.time() - t0)),
                 section=name)
