"""C18 Saved objects and exported data load back to the same physical values.

Two exhaustive spaces, both evaluated case by case on the real implementation:

G (format matrix, E-grid)
    class {DFunction, AbsSpectrum, TwoDResponse, DensityMatrixEvolution} x extension
    {.dat,.txt,.npy,.npz,.mat} x data flavour (real / complex ...) x shape {(N,), (N,M)} with
    N and M running from ONE, i.e. including a single point (1,), a single row (1,M), a single
    column (N,1) and a single entry (1,1) (+ (Nt,d,d) Hermitian for DensityMatrixEvolution,
    Nt and d from one) x {without axis, with axis}, through the public ``save_data`` /
    ``load_data``.  The file is loaded into a DIFFERENT object (other axis, zero data), so a
    load that does nothing is seen.  Oracle: loaded data have the shape and the values of the
    exported array (class R), the axis handed to ``load_data`` carries the values of the
    exported axis.  Where the LAYOUT of the file cannot tell a dimension of length one from
    no dimension (``_g_shape_rule``: header-less text tables without axis; the [axis | data]
    layout with one data column) the shape may come back with dimensions of length one
    dropped - nothing else - and the values are compared in the exported order.
    MAGNITUDE of the data is a dimension of its own: the whole product is repeated with the
    real and the complex array multiplied by 1e-6, 1e-10, 1e-14 (thorough: also 1e+10), and a
    complex flavour whose imaginary parts are nine decades below the real parts is part of it.
    The comparison is relative to the size of every single entry AND of its real and imaginary
    part separately (all formats are lossless; text is written with 18 digits), never to an
    absolute number, so a decision of the import that depends on the absolute size of the
    numbers ("imaginary part close to zero", "value close to zero") is seen.

X (the exported axis in the units of the caller)
    class {AbsSpectrum, TwoDResponse, DFunction over a FrequencyAxis} x extension x {real,
    complex} data x shape {(N,), (N,M)} x KIND OF AXIS by the signs and sizes of its values
    {positive, negative, the Fourier pair of a time axis (centred at zero, zero is a point;
    both kinds of time axes), through zero between two points, starting at zero, ending at
    zero, descending, descending through zero, 1e-9 around zero, 1e3 around zero, the single
    point zero} x EVERY energy unit the Manager knows (the wavelength 'nm' is the non-linear
    one): export and import with the axis inside ``energy_units(u)`` into another object.
    Oracle: the axis of the receiver read inside the context is the exported axis as read
    there, read after the context was left it is the exported axis in internal units as it
    was before the context - entry by entry, relative to the size of that entry (a point zero
    is zero); the exporting axis is what it was; the data as in G.

H (parcels, all short histories)
    ``[enter ctx]* [touch] save [exit|enter ctx]* load [read under ctx']`` with ctx in
    {energy_units(u), eigenbasis_of(X)}, nesting <= 2, X in {real symmetric, complex Hermitian}
    (``kop``), the matrix held by the basis managed classes in {real, complex} (``kdata``), for
    16 saveable classes and the routes
    save/load (file name), save/load (file object), save_parcel/load_parcel, scopy,
    savedir/loaddir.  Oracle: a TWIN WORLD.  The same history is executed a second time on
    freshly built identical objects WITHOUT save/load (Manager reset in between) and the
    observable data of the twin, read at the same point of the history, is the expected
    value of the observable data of the loaded object (class R).  Observables are read through
    public accessors only (``data`` properties, getters), never from ``_data``.

D (directories, all short histories of ``savedir`` into ONE directory)
    every sequence of up to 3 (thorough: 5) ``savedir`` calls whose tag is drawn from
    {automatic, 1, 2, 3, "s"} (user tags not repeated within one history) x 16 casts (which
    class is saved at which step; every class appears at every step) x {a fresh object per
    step, one and the same instance at every step}; ``loaddir`` after EVERY call.  Oracle: a
    model of the table that claims only what the two methods promise - a call with tag t
    sets entry t and leaves every other entry alone; a call without a tag ADDS an entry
    (under a tag of the implementation's choice that was not in use) and leaves every other
    entry alone; every entry loads back as an object of the saved class with the observable
    data of a never-saved twin (class R).  Nothing is claimed about the value of an
    automatic tag.

    SAVING LEAVES THE SAVED OBJECT AS IT WAS (every history of H): the object handed to
    save is itself read (a) right before and right after the call, at the very place of the
    call (histories with ``touch``, where it was read there anyway), and (b) at the end of the
    history, where it has to be what the never-saved twin is at that point - inside the
    context that was open at the call, after its exit and inside a later one.  The classes
    whose ``transform`` works in place on storage with more than two indices
    (TransitionDipoleMoment, ReducedDensityMatrixEvolution, StateVectorEvolution, next to
    DensityMatrixEvolution) are members of H for this reason (quick: first matrix kind).

I (import inside a context, all short histories)
    a basis managed object that offers ``save_data``/``load_data`` (Operator, Hamiltonian,
    ReducedDensityMatrix, DensityMatrixEvolution, TransitionDipoleMoment,
    StateVectorEvolution: both managed-array property factories, every kind of ``transform``)
    x extension {.dat,.txt,.npy,.npz} (quick: without .txt, in every class the same writer
    and reader as .dat; first matrix kind of each class): inside <= 2 nested contexts an object A exports its
    data and a RECEIVER B - made before the contexts, other content, {not yet read, read}
    inside them - imports the file at the same place; B is then read {inside}, {after all
    contexts were left}, {inside one later context}, every subset of the first two reads
    being a history of its own (a read can register or transform the object and so hide what
    the next read would have seen).  Oracle: a TWIN that exported and imported the same way
    OUTSIDE every context and is read at the same places (class R).  Cells in which the
    format of the class cannot carry the CONTENT seen in the context (the complex
    representation of a real matrix in a complex basis in a table of real numbers) are decided
    by exporting/importing that very array outside every context: raises there too = the cell
    is not offered.

R (one file name used again, all short histories)
    data files: every sequence of <= 3 (thorough: 5) steps from {export source 0, export
    source 1 (same shape), export source 2 (longer), import into a fresh receiver, write in
    place into the array the last receiver hands out} on ONE file name x class x extension
    x {real, complex} x {without, with axis}; parcels: every sequence from {save content 0,
    save content 1, load} x class x {save/load, save_parcel/load_parcel}.  After EVERY step
    every receiver made so far is read again.  Oracle: a model - a receiver holds the array
    (the axis, the observables) the file held when it imported, later exports, imports and
    writes into other receivers do not reach it; a fresh import returns the last export.

S (several objects one after another in ONE open file object)
    2 or 3 objects (object no. k = content variant k of its class) x sequence of classes
    (every class in every position; complete products over class alphabets) x medium {binary
    file, BytesIO} x save route {obj.save(f), save_parcel(obj, f)} x load route {x.load(f),
    load_parcel(f)} x read order {consecutive after one rewind; every permutation of the
    positions by the offsets f.tell() gave; every object read back right after it was saved,
    then all consecutively}.  The position of the file object is part of the history.  Oracle:
    what is read at the place of object no. k has the class and the observable data of the
    never-saved twin of object no. k (class R).

Everything the check writes goes to a fresh ``tempfile.mkdtemp()`` directory which is removed
before the case returns.
"""
import itertools
import os
import shutil
import tempfile

import numpy

from mc import isolation, systems
from mc.explore import run_grid, approx

LEVEL = "model_checking"
TOL = 1e-10                     # class R: |delta| <= TOL * max|entry|

EXTS = [".dat", ".txt", ".npy", ".npz", ".mat"]
# magnitude of the exported data: powers of ten the order-one arrays are multiplied with, a
# complete sub-product over class x extension x shape x axis for the flavours below
G_SCALES = {"quick": [-6, -10, -14], "thorough": [-6, -10, -14, 10]}
G_SCALED_FLAVOURS = ("real", "complex")


def _mkdtemp(prefix):
    """Fresh private directory for everything one case writes; removed by the caller.  A
    memory backed file system is preferred when there is one (the cases are I/O bound: tens
    of thousands of create/write/remove cycles), else the default temporary directory."""
    for base in ("/dev/shm", None):
        if base is None or (os.path.isdir(base) and os.access(base, os.W_OK | os.X_OK)):
            try:
                return tempfile.mkdtemp(prefix=prefix, dir=base)
            except OSError:
                continue
    raise isolation.HarnessError("no writable temporary directory")


# ==========================================================================
# G: format matrix
# ==========================================================================
def _gdata(flavour, shape):
    """Deterministic array with all entries distinct (no symmetry a transposition or a
    dropped column could hide behind)."""
    n = int(numpy.prod(shape))
    k = numpy.arange(n, dtype=float)
    re = 0.37 * (k + 1.0) - 1.1 + 0.013 * k * k
    im = 0.21 * k - 0.4 - 0.007 * k * k
    if flavour == "real":
        a = re
    elif flavour == "complex":
        a = re + 1j * im
    elif flavour == "real-wide":            # 24 decades; needs all 17 digits of a text format
        a = re * 10.0 ** (((k * 7) % 25) - 12)
    elif flavour == "complex-zero-imag":    # complex dtype whose imaginary part vanishes
        a = re + 0j
    elif flavour == "complex-pure-imag":
        a = 1j * im
    elif flavour == "complex-small-imag":   # imaginary parts nine decades below the real ones
        a = re + 1e-9j * im
    else:
        raise isolation.HarnessError("flavour " + flavour)
    return a.reshape(shape)


def _gscale(case):
    """Factor all exported DATA (not the axis) are multiplied with: 10**scale10; cases
    without the entry are the order-one data."""
    return 10.0 ** int(case.get("scale10", 0))


def _herm(flavour, nt, d):
    """(nt,d,d) Hermitian (real: symmetric) time dependent matrix."""
    a = numpy.zeros((nt, d, d), dtype=float if flavour.startswith("real") else complex)
    for t in range(nt):
        for i in range(d):
            for j in range(i, d):
                v = 0.1 * (t + 1) + i - 0.37 * j + 0.05 * t * j
                if i != j and not flavour.startswith("real"):
                    v = v + 1j * (0.2 * t - 0.3 * i + j + 0.11) \
                        * (1e-9 if flavour == "complex-small-imag" else 1.0)
                if flavour == "complex-zero-imag":
                    v = v.real + 0j
                if flavour == "real-wide":
                    v = v * 10.0 ** (((t * 5 + i + 3 * j) % 25) - 12)
                a[t, i, j] = v
                a[t, j, i] = numpy.conj(v)
    return a


def _lib_frame(e):
    """Innermost quantarhei frame of the traceback of e ('file.py:function') or None when the
    exception did not pass through the library at all (then it is the harness' fault)."""
    import traceback
    where = None
    for fr in traceback.extract_tb(e.__traceback__):
        if "/quantarhei/" in fr.filename:
            where = "%s:%s" % (os.path.basename(fr.filename), fr.name)
    return where


def _g_supported(case):
    """A-priori support table (from the docstrings / signatures of the classes, NOT from what
    happens to work): returns None when the cell must round-trip, else the reason why the
    class does not offer this cell."""
    cls, ext, shape, axis = case["cls"], case["ext"], case["shape"], case["axis"]
    if cls == "DFunction" and len(shape) != 1:
        return "DFunction holds one-dimensional data only (constructor refuses)"
    if cls == "DensityMatrixEvolution":
        if ext == ".mat":
            return "MatrixData.save_data documents .dat .txt .npy .npz only"
        if ext in (".dat", ".txt") and len(shape) != 3:
            return "text layout of DensityMatrixEvolution is defined for (Nt,d,d) only"
    return None


def _shape_class(shape):
    """Name of the shape class of a cell; the classes without a dimension of length one
    keep the names '1D', '2D', '3D'."""
    shape = tuple(shape)
    if len(shape) == 1:
        return "1D-one-point" if shape[0] == 1 else "1D"
    if len(shape) == 2:
        if shape == (1, 1):
            return "2D-one-entry"
        if shape[0] == 1:
            return "2D-one-row"
        if shape[1] == 1:
            return "2D-one-column"
        return "2D"
    return "3D-one-time" if shape[0] == 1 else "3D"


def _g_shape_rule(case):
    """How much of the exported shape the LAYOUT of the file can carry - decided a priori from
    the layout, not from what the implementation returns.

    'exact'             the loaded array must have the exported shape
    'modulo-unit-dims'  the loaded shape is the exported one with (possibly) dimensions of
                        length one dropped, nothing else; values in the exported order

    Only cells whose exported shape HAS a dimension of length one can get the second rule:
    * export WITH an axis (any format) of 2-D data with ONE column: the layout is
      [axis | data columns], one row per point of the axis, and two columns is the layout of
      1-D data.  Every other shape is carried by this layout - also a single row, the table
      has at least two columns and its rows are the points of the axis: exact;
    * export WITHOUT axis to .dat/.txt of the DataSaveable classes: a header-less table of
      rows x columns (numpy.savetxt); a single row, a single column or a single number is the
      same file whether it was written from 1-D or 2-D data (one column) or is told apart
      only by the orientation of the table (one row), which a 1-D array does not have.
    .npy/.npz store the shape, Matlab stores 2-D arrays natively and the library records the
    number of dimensions next to the data, the text layout of DensityMatrixEvolution is filled
    into an array of the receiving object: exact."""
    shape = tuple(case["shape"])
    if 1 not in shape or case["cls"] == "DensityMatrixEvolution":
        return "exact"
    if case["axis"]:
        return "modulo-unit-dims" if (len(shape) == 2 and shape[1] == 1) else "exact"
    if case["ext"] in (".dat", ".txt"):
        return "modulo-unit-dims"
    return "exact"


def _drops_only_units(exported, loaded):
    """True when `loaded` is `exported` with some (or no) entries equal to one removed."""
    exported, loaded = list(exported), list(loaded)
    k = 0
    for n in exported:
        if k < len(loaded) and loaded[k] == n:
            k += 1
        elif n != 1:
            return False
    return k == len(loaded)


def _g_roundtrip(case, tmp):
    """Returns (data_out, loaded_data, axis_out_values|None, loaded_axis_values|None)."""
    qr = isolation.qr()
    cls, ext, flav, shape, axis = (case["cls"], case["ext"], case["dtype"],
                                   tuple(case["shape"]), case["axis"])
    N = shape[0]
    fn = os.path.join(tmp, "export" + ext)
    ta = qr.TimeAxis(0.25, N, 1.5)
    ta2 = qr.TimeAxis(5.0, N, 2.0)
    with qr.energy_units("int"):
        fa = qr.FrequencyAxis(0.1, N, 0.01)
        fa2 = qr.FrequencyAxis(0.5, N, 0.02)
    if cls == "DFunction":
        data = _gdata(flav, shape) * _gscale(case)
        o = qr.DFunction(ta, data.copy())
        o.save_data(fn, with_axis=ta if axis else None)
        ax_out = ta.data.copy()
        o2 = qr.DFunction(ta2, numpy.zeros(N))
        o2.load_data(fn, with_axis=ta2 if axis else None)
        return data, o2.data, (ax_out if axis else None), (ta2.data if axis else None)
    if cls == "AbsSpectrum":
        if not axis:
            raise isolation.HarnessError("AbsSpectrum has no axis-less export")
        data = _gdata(flav, shape) * _gscale(case)
        o = qr.AbsSpectrum(axis=fa, data=data.copy())
        o.save_data(fn)
        ax_out = fa.data.copy()
        o2 = qr.AbsSpectrum(axis=fa2, data=numpy.zeros(N))
        o2.load_data(fn)
        return data, o2.data, ax_out, o2.axis.data
    if cls == "TwoDResponse":
        data = _gdata(flav, shape) * _gscale(case)
        o = qr.TwoDResponse()
        o.set_axis_1(fa)
        o.set_axis_3(fa)
        o.set_data_writable()
        o.data = data.copy()
        o.set_data_protected()
        o.save_data(fn, with_axis=fa if axis else None)
        ax_out = fa.data.copy()
        o2 = qr.TwoDResponse()
        o2.set_axis_1(fa2)
        o2.set_axis_3(fa2)
        o2.load_data(fn, with_axis=fa2 if axis else None)
        return data, o2.data, (ax_out if axis else None), (fa2.data if axis else None)
    if cls == "DensityMatrixEvolution":
        from quantarhei.qm.propagators.dmevolution import DensityMatrixEvolution
        if axis:
            raise isolation.HarnessError("MatrixData.save_data has no axis argument")
        data = (_herm(flav, shape[0], shape[1]) if len(shape) == 3
                else _gdata(flav, shape)) * _gscale(case)
        o = DensityMatrixEvolution(ta)
        o.data = data.copy()
        o.save_data(fn)
        o2 = DensityMatrixEvolution(ta2)
        o2.data = numpy.zeros(shape, dtype=complex)
        o2.load_data(fn)
        return data, o2.data, None, None
    raise isolation.HarnessError("class " + cls)


def _digest(x):
    a = numpy.asarray(x)
    if a.dtype.kind in "US" or a.dtype == object:
        return repr(a.tolist())[:60]
    a = a.astype(complex).ravel()
    if a.size == 0:
        return [0]
    w = numpy.cos(1.0 + numpy.arange(a.size))
    s = complex(numpy.sum(a * w))
    sc = max(float(numpy.max(numpy.abs(a))), 1e-300)
    return [list(numpy.shape(x)), round(s.real / sc, 7), round(s.imag / sc, 7),
            float("%.6e" % sc)]


def _entrywise(got, ref):
    """all |got-ref| <= TOL*|ref| entry by entry, and the same for the real and for the
    imaginary parts separately (an imaginary part far below the real one is a value of its
    own); returns (ok, worst relative deviation of an entry or of one of its parts)."""
    got = numpy.asarray(got)
    if not (numpy.all(numpy.isfinite(got)) and numpy.all(numpy.isfinite(ref))):
        return False, float("inf")
    ok, worst = True, 0.0
    parts = [(got, ref)]
    if numpy.iscomplexobj(got) or numpy.iscomplexobj(ref):
        parts += [(numpy.real(got), numpy.real(ref)), (numpy.imag(got), numpy.imag(ref))]
    for g, r in parts:
        d = numpy.abs(g - r)
        a = numpy.abs(r)
        ok = ok and bool(numpy.all(d <= TOL * a))
        rel = d / numpy.where(a > 0, a, 1.0)
        rel = numpy.where((a == 0) & (d > 0), numpy.inf, rel)
        if rel.size:
            worst = max(worst, float(numpy.max(rel)))
    return ok, worst


def eval_g(case):
    viol = []
    unsupported = _g_supported(case)
    cell = "%s/%s/%s/%s" % (case["ext"], "with-axis" if case["axis"] else "no-axis",
                            _shape_class(case["shape"]),
                            "real" if case["dtype"].startswith("real") else "complex")
    rule = _g_shape_rule(case)
    if case.get("ctx"):
        cell += "/inside-energy_units(%s)" % case["ctx"]
    if case.get("scale10"):
        cell += "/data-scale=1e%+03d" % int(case["scale10"])
    tmp = _mkdtemp("c18g_")
    try:
        try:
            if case.get("ctx"):
                # export and import both made inside the same units context of the caller
                with isolation.qr().energy_units(case["ctx"]):
                    data, back, ax_out, ax_back = _g_roundtrip(case, tmp)
            else:
                data, back, ax_out, ax_back = _g_roundtrip(case, tmp)
        except isolation.HarnessError:
            raise
        except Exception as e:
            where = _lib_frame(e)
            if where is None:
                raise isolation.HarnessError("G harness failure: %r in %r" % (e, case))
            if unsupported is not None:
                return {"nontrivial": False, "outcome": ["refused", case["cls"], cell],
                        "violations": [],
                        "info": {"unsupported": "%s %s: %s" % (case["cls"], cell, unsupported)}}
            viol.append(("export/raises:%s@%s/%s" % (type(e).__name__, where.split(":")[1],
                                                     cell),
                         "%s save_data/load_data of %s data shape %s (%s) raised %s: %s [%s]"
                         % (case["cls"], case["dtype"], tuple(case["shape"]),
                            cell, type(e).__name__, str(e)[:160], where),
                         {"where": where}))
            return {"nontrivial": True, "outcome": ["raises", case["cls"], cell,
                                                    type(e).__name__], "violations": viol}
    finally:
        shutil.rmtree(tmp, ignore_errors=True)
    back = numpy.asarray(back)
    err = 0.0
    squeezed = None
    if rule == "exact":
        shape_ok = back.shape == data.shape
    else:
        shape_ok = _drops_only_units(data.shape, back.shape)
        if shape_ok and back.shape != data.shape:
            squeezed = "%s %s: exported %s, loaded %s" % (case["cls"], cell, data.shape,
                                                          back.shape)
            back = back.reshape(data.shape)     # same C order: only unit dimensions differ
    if not shape_ok:
        viol.append(("export/shape-differs/%s" % cell,
                     "%s: exported shape %s came back as %s (shape rule of the cell: %s)"
                     % (case["cls"], data.shape, back.shape, rule),
                     {"exported": list(data.shape), "loaded": list(back.shape),
                      "rule": rule}))
    else:
        # class R applied PER ENTRY: every format of the matrix is lossless (text is written
        # with 18 digits), and the wide-range flavour would hide its small entries behind
        # max|entry| otherwise
        ok, err = _entrywise(back, data)
        if not ok:
            viol.append(("export/values-differ/%s" % cell,
                         "%s: loaded values differ from exported ones (worst relative "
                         "deviation of an entry %g)" % (case["cls"], err), {"err": err}))
    aerr = 0.0
    if ax_out is not None:
        ax_back = numpy.asarray(ax_back)
        if ax_back.shape != ax_out.shape:
            viol.append(("export/axis-shape-differs/%s" % cell,
                         "axis came back with shape %s" % (ax_back.shape,), None))
        else:
            ok, aerr = approx(ax_back, ax_out, TOL)
            if not ok:
                viol.append(("export/axis-differs/%s" % cell,
                             "%s: loaded axis values differ from exported ones by %g"
                             % (case["cls"], aerr), {"err": aerr}))
    info = {"dev": {"export-values-per-entry": err if numpy.isfinite(err) else -1.0,
                    "export-axis": aerr}}
    if squeezed:
        info["squeezed"] = squeezed
    return {"nontrivial": True,
            "outcome": ["ok" if not viol else "bad", case["cls"], cell, _digest(back),
                        "unit-dims-dropped" if squeezed else "shape-kept"],
            "violations": viol, "info": info}


def cases_g(tier):
    # N and M start at ONE: (1,), (1,M), (N,1), (1,1) are part of the product
    if tier == "quick":
        Ns, Ms, flav = [1, 2, 5], [1, 2, 3], ["real", "complex", "complex-small-imag"]
        herm = [(1, 1), (2, 1), (1, 2), (3, 2), (2, 3)]
    else:
        Ns, Ms = [1, 2, 3, 5, 8, 16], [1, 2, 3, 4, 7]
        flav = ["real", "complex", "real-wide", "complex-zero-imag", "complex-pure-imag",
                "complex-small-imag"]
        herm = [(nt, d) for nt in (1, 2, 3, 5, 8) for d in (1, 2, 3, 4)]
    scales = G_SCALES[tier]
    shapes = [[n] for n in Ns] + [[n, m] for n in Ns for m in Ms]
    # the sub-product inside a units context (unit conversion of the exported axis)
    ctx_shapes = [[n] for n in Ns if n > 1][:2] + [[2, 2]]
    cs = []
    for cls in ["DFunction", "AbsSpectrum", "TwoDResponse"]:
        for shape in shapes:
            for ext in EXTS:
                for f in flav:
                    for axis in (False, True):
                        if cls == "AbsSpectrum" and not axis:
                            continue        # AbsSpectrum.save_data(filename): always with axis
                        cs.append({"part": "G", "cls": cls, "ext": ext, "dtype": f,
                                   "shape": shape, "axis": axis})
                        if f in G_SCALED_FLAVOURS:
                            for e in scales:
                                cs.append({"part": "G", "cls": cls, "ext": ext, "dtype": f,
                                           "shape": shape, "axis": axis, "scale10": e})
                        if cls in ("AbsSpectrum", "TwoDResponse") and axis and \
                                f in ("real", "complex") and shape in ctx_shapes:
                            for ctx in (["1/cm"] if tier == "quick" else ["1/cm", "eV", "nm"]):
                                cs.append({"part": "G", "cls": cls, "ext": ext, "dtype": f,
                                           "shape": shape, "axis": axis, "ctx": ctx})
    for shape in shapes + [[nt, d, d] for nt, d in herm]:
        for ext in EXTS:
            for f in flav:
                if len(shape) == 3 and f == "complex-pure-imag":
                    continue                # not a Hermitian content
                cs.append({"part": "G", "cls": "DensityMatrixEvolution", "ext": ext,
                           "dtype": f, "shape": shape, "axis": False})
                if f in G_SCALED_FLAVOURS:
                    for e in scales:
                        cs.append({"part": "G", "cls": "DensityMatrixEvolution", "ext": ext,
                                   "dtype": f, "shape": shape, "axis": False, "scale10": e})
    cs.sort(key=lambda c: (int(numpy.prod(c["shape"])), len(c["shape"])))
    return cs


# ==========================================================================
# X: the exported AXIS in the units of the caller (kind of axis x units)
# ==========================================================================
# every energy unit the Manager knows (the conversion of 'nm' is the only non-linear one:
# a reciprocal, zero wavelength standing for zero energy)
X_UNITS = ["1/fs", "int", "1/cm", "eV", "meV", "THz", "J", "SI", "nm", "Ha", "a.u."]
# kinds of frequency axes by the sign structure and the size of their values (internal units)
X_AXES = ["positive", "negative", "fourier-pair-of-time-axis",
          "fourier-pair-of-upper-half-time-axis", "through-zero-between-points",
          "from-zero", "up-to-zero", "descending-positive", "descending-through-zero",
          "close-to-zero", "far-from-zero", "single-point-zero"]
X_CLASSES = ["AbsSpectrum", "TwoDResponse", "DFunction"]


def _x_axis(kind, N, decoy=False):
    """FrequencyAxis of the kind (made outside every context, internal units).  decoy: the
    axis of the receiving object - another one of the same length, all values different."""
    qr = isolation.qr()
    with qr.energy_units("int"):
        if decoy:
            return qr.FrequencyAxis(0.77, N, 0.031)
        if kind == "positive":
            return qr.FrequencyAxis(0.1, N, 0.01)
        if kind == "negative":
            return qr.FrequencyAxis(-0.5, N, 0.013)
        if kind == "fourier-pair-of-time-axis":
            # the complete frequency axis which belongs to a time axis: centred at zero,
            # the point zero is a point of the axis
            return qr.TimeAxis(0.0, N, 2.0, atype="complete").get_FrequencyAxis()
        if kind == "fourier-pair-of-upper-half-time-axis":
            # the same for the default kind of time axis (twice as many points, N is even)
            fa = qr.TimeAxis(0.0, N // 2, 2.0).get_FrequencyAxis()
            if fa.length != N:
                raise isolation.HarnessError("length of the Fourier pair axis")
            return fa
        if kind == "through-zero-between-points":
            return qr.FrequencyAxis(-0.015, N, 0.01)
        if kind == "from-zero":
            return qr.FrequencyAxis(0.0, N, 0.02)
        if kind == "up-to-zero":
            return qr.FrequencyAxis(-0.02 * (N - 1), N, 0.02)
        if kind == "descending-positive":
            return qr.FrequencyAxis(0.9, N, -0.011)
        if kind == "descending-through-zero":
            return qr.FrequencyAxis(0.02, N, -0.02)
        if kind == "close-to-zero":
            return qr.FrequencyAxis(-1.0e-9, N, 0.7e-9)
        if kind == "far-from-zero":
            return qr.FrequencyAxis(-2.0e3, N, 1.3e3)
        if kind == "single-point-zero":
            return qr.FrequencyAxis(0.0, N, 0.01)
    raise isolation.HarnessError("axis kind " + kind)


def _x_make(cls, axis, data):
    """Object of the class on the axis; (object, keyword arguments of save_data/load_data)"""
    qr = isolation.qr()
    if cls == "AbsSpectrum":
        return qr.AbsSpectrum(axis=axis, data=data), {}
    if cls == "DFunction":
        return qr.DFunction(axis, data), {"with_axis": axis}
    if cls == "TwoDResponse":
        o = qr.TwoDResponse()
        o.set_axis_1(axis)
        o.set_axis_3(axis)
        o.set_data_writable()
        o.data = data
        o.set_data_protected()
        return o, {"with_axis": axis}
    raise isolation.HarnessError("class " + cls)


def _x_signs(a):
    a = numpy.real(numpy.asarray(a))
    return "".join(s for s, c in (("-", numpy.any(a < 0)), ("0", numpy.any(a == 0)),
                                  ("+", numpy.any(a > 0))) if c)


def eval_x(case):
    """Export and import with the axis inside energy_units(u).  The axis the receiver holds
    afterwards is (a) inside the context the exported axis as the context shows it and (b)
    after the context was left the exported axis in internal units - entry by entry, relative
    to the size of that very entry (a wavelength axis through zero spans any number of
    decades), a point zero being zero."""
    qr = isolation.qr()
    isolation.reset_manager()
    cls, ext, units, kind = case["cls"], case["ext"], case["units"], case["axkind"]
    shape = tuple(case["shape"])
    N = shape[0]
    viol = []
    src_axis = _x_axis(kind, N)
    rec_axis = _x_axis(kind, N, decoy=True)
    w_int = numpy.array(src_axis.data, copy=True)           # internal units, outside contexts
    data = _gdata(case["dtype"], shape)
    cell = "%s/%s/axis-%s/%s" % (ext, "linear-units" if units != "nm" else "wavelength-units",
                                 kind, "real" if case["dtype"].startswith("real")
                                 else "complex")
    what = "%s %s %s data %s, axis %s (signs %s) inside energy_units(%s)" % (
        cls, ext, case["dtype"], shape, kind, _x_signs(w_int), units)
    tmp = _mkdtemp("c18x_")
    fn = os.path.join(tmp, "export" + ext)
    stage = "build"
    try:
        try:
            src, kws = _x_make(cls, src_axis, data.copy())
            rec, kwr = _x_make(cls, rec_axis, numpy.zeros(shape, dtype=data.dtype))
            stage = "enter"
            with qr.energy_units(units):
                stage = "read-axis"
                shown = numpy.array(src_axis.data, copy=True)
                stage = "export"
                src.save_data(fn, **kws)
                stage = "import"
                rec.load_data(fn, **kwr)
                stage = "read-inside"
                shown_back = numpy.array(rec_axis.data, copy=True)
                spectrum_axis = numpy.array(rec.axis.data, copy=True) \
                    if cls != "TwoDResponse" else None
            stage = "read-after-exit"
            back_int = numpy.array(rec_axis.data, copy=True)
            back = numpy.asarray(rec.data)
            src_after = numpy.array(src_axis.data, copy=True)
        except isolation.HarnessError:
            raise
        except Exception as e:
            where = _lib_frame(e)
            if where is None:
                raise isolation.HarnessError("X harness failure at %s: %r in %r"
                                             % (stage, e, case))
            viol.append(("axis-units/%s-raises:%s/%s" % (stage, type(e).__name__, cell),
                         "%s -> %s raised %s: %s [%s]" % (what, stage, type(e).__name__,
                                                          str(e)[:160], where),
                         {"where": where}))
            return {"nontrivial": True, "outcome": ["raises", cls, cell, stage],
                    "violations": viol}
    finally:
        shutil.rmtree(tmp, ignore_errors=True)
        isolation.reset_manager()
    dev = {}
    checks = [("axis-differs-inside-context", shown_back, shown,
               "axis of the receiver read inside the context differs from the exported axis "
               "read there"),
              ("axis-differs-after-exit", back_int, w_int,
               "axis of the receiver read after the context was left differs from the "
               "exported axis in internal units"),
              ("exporting-changes-axis", src_after, w_int,
               "axis of the EXPORTING object differs from what it was before the export")]
    if spectrum_axis is not None:
        checks.insert(1, ("axis-differs-inside-context", spectrum_axis, shown,
                          "axis property of the receiver read inside the context differs "
                          "from the exported axis read there"))
    seen = set()
    for key, got, ref, msg in checks:
        if key in seen:
            continue
        if numpy.shape(got) != numpy.shape(ref):
            ok, err = False, float("inf")
        else:
            ok, err = _entrywise(got, ref)
        if ok:
            dev[key] = max(dev.get(key, 0.0), err)
        else:
            seen.add(key)
            nbad = -1
            if numpy.shape(got) == numpy.shape(ref):
                nbad = int(numpy.sum(~(numpy.abs(numpy.asarray(got) - ref)
                                       <= TOL * numpy.abs(ref))))
            viol.append(("axis-units/%s/%s" % (key, cell),
                         "%s: %s (%d of %d points, worst relative deviation of a point %g)"
                         % (what, msg, nbad, N, err),
                         {"expected": repr(ref)[:400], "observed": repr(got)[:400]}))
    if back.shape != data.shape:
        # the shape rules of the layouts are G's business; values are compared when they can
        if _drops_only_units(data.shape, back.shape):
            back = back.reshape(data.shape)
        else:
            viol.append(("axis-units/shape-differs/%s" % cell,
                         "%s: data came back with shape %s" % (what, back.shape), None))
            back = None
    if back is not None:
        ok, err = _entrywise(back, data)
        if not ok:
            viol.append(("axis-units/values-differ/%s" % cell,
                         "%s: loaded values differ from exported ones (worst relative "
                         "deviation of an entry %g)" % (what, err), {"err": err}))
        else:
            dev["values"] = err
    return {"nontrivial": units not in ("1/fs", "int"),
            "outcome": ["ok" if not viol else "bad", cls, cell, units, _digest(shown_back),
                        _digest(back_int)],
            "violations": viol,
            "info": {"dev": {"axis-units-" + k: v for k, v in dev.items()}}}


def x_bounds(tier):
    """(lengths N of the axis, second dimensions M of 2-D data, data flavours)"""
    if tier == "quick":
        return [5], [3], ["real", "complex"]
    return [2, 5, 8], [2, 3], ["real", "complex", "complex-small-imag"]


def cases_x(tier):
    Ns, Ms, flav = x_bounds(tier)
    cs = []
    for kind in X_AXES:
        for n in ([1] if kind == "single-point-zero" else Ns):
            if kind == "fourier-pair-of-upper-half-time-axis":
                n += n % 2
            for cls in X_CLASSES:
                shapes = [[n]] + ([[n, m] for m in Ms] if cls != "DFunction" else [])
                for shape in shapes:
                    for units in X_UNITS:
                        for ext in EXTS:
                            for f in flav:
                                cs.append({"part": "X", "cls": cls, "ext": ext, "dtype": f,
                                           "shape": shape, "axkind": kind, "units": units})
    cs.sort(key=lambda c: (int(numpy.prod(c["shape"])), len(c["shape"])))
    return cs


# ==========================================================================
# H: parcels
# ==========================================================================
CLASSES = ["TimeAxis", "FrequencyAxis", "DFunction", "Operator", "Hamiltonian",
           "ReducedDensityMatrix", "DensityMatrixEvolution", "Molecule", "MoleculeMode",
           "Aggregate", "CorrelationFunction", "SpectralDensity", "AbsSpectrum",
           "AbsSpectrumContainer", "TwoDResponse", "TwoDResponseContainer"]
# classes whose transform() works IN PLACE on storage with more than two indices (the first 16
# classes are the casts of part D; these ones are members of H, I and R only).  Saveable ones
# take every route, StateVectorEvolution is no Saveable and goes through save_parcel only
H_EXTRA_CLASSES = ["TransitionDipoleMoment", "ReducedDensityMatrixEvolution",
                   "StateVectorEvolution"]
H_CLASSES = CLASSES + H_EXTRA_CLASSES
ROUTES_OF = {"StateVectorEvolution": ["parcel"]}
OWN_S = ("Hamiltonian", "Molecule", "MoleculeMode", "Aggregate")   # "B:S" is the object's own H
HOLDERS = ("Molecule", "MoleculeMode", "Aggregate")   # keep basis managed parts (H, dipoles)
ROUTES = ["save-load", "fileobj", "parcel", "dir", "scopy"]
ATOMIC = ("scopy",)
# operator class of the matrices: of the context operators X of eigenbasis_of(X) ("kop", a
# property of the world: S and A are both real symmetric or both complex Hermitian - with a
# complex Hermitian X the transformation matrix is unitary, not orthogonal) and of the matrix
# held by the saved object ("kdata", for the classes that ARE a basis managed matrix; the
# first entry is the content the class had before this dimension existed)
KOPS = ["real", "complex"]
# TransitionDipoleMoment keeps a REAL array (dmoment.py) and its transform assigns into it: in
# the eigenbasis of a complex Hermitian operator the dipole operator cannot be represented by
# the class at all (the imaginary part is discarded by the transformation itself, with or
# without saving - context transparency, C04/C05).  The never-saved twin is then no oracle
# for this one observable, which is not compared in worlds with complex context operators.
REAL_STORAGE_OBSERVABLES = ("D.data",)
DATA_KINDS = {"Operator": ["real", "complex"], "Hamiltonian": ["real", "complex"],
              "ReducedDensityMatrix": ["complex", "real"],
              "DensityMatrixEvolution": ["complex", "real"],
              "ReducedDensityMatrixEvolution": ["complex", "real"],
              "TransitionDipoleMoment": ["real", "complex"]}


def _symm(d, k):
    """Deterministic real symmetric d x d matrix no. k with a non-degenerate spectrum that
    does not commute with the other ones."""
    a = numpy.zeros((d, d))
    for i in range(d):
        for j in range(i, d):
            a[i, j] = a[j, i] = numpy.cos(1.3 * (i + 1) * (k + 1) + 0.7 * j * j + k) \
                + (2.0 * i if i == j else 0.0)
    return a


def _hermop(d, k, kind):
    """Context operator no. k: real symmetric (_symm) or complex Hermitian with the same real
    part, every off-diagonal element with a non-vanishing imaginary part."""
    a = _symm(d, k)
    if kind == "real":
        return a
    a = a.astype(complex)
    for i in range(d):
        for j in range(i + 1, d):
            v = 0.35 + 0.5 * numpy.sin(0.9 * (i + 1) * (k + 2) + 0.4 * j * j + k)
            a[i, j] += 1j * v
            a[j, i] -= 1j * v
    return a


def _twod(qr, f):
    with qr.energy_units("1/cm"):
        xa = qr.FrequencyAxis(11000.0, 2, 100.0)
        ya = qr.FrequencyAxis(11500.0, 3, 50.0)
    r = qr.TwoDResponse()
    r.set_axis_1(xa)
    r.set_axis_3(ya)
    r.set_resolution("signals")
    r._add_data(f * numpy.array([[1, 2, 4], [3, 5 + 1j, -1]], dtype=complex),
                dtype=qr.signal_REPH)
    r._add_data(f * numpy.array([[1j, 2, 0.5], [-3, 5, 7j]], dtype=complex),
                dtype=qr.signal_NONR)
    return r


def _build(cls, v, kdata=None):
    """Fresh real object of class `cls`, content variant v (0 = object under test, 1 = the
    decoy saved first into the same directory), matrix kind kdata (DATA_KINDS; None = the
    first kind of the class).  Returns (obj, dim, own_hamiltonian|None)."""
    qr = isolation.qr()
    f = 1.0 + 0.5 * v
    if kdata is None:
        kdata = DATA_KINDS.get(cls, [None])[0]
    elif kdata not in DATA_KINDS.get(cls, ()):
        raise isolation.HarnessError("class %s has no matrix kind %r" % (cls, kdata))
    if cls == "TimeAxis":
        return qr.TimeAxis(0.5 + v, 6, 1.5 * f), 2, None
    if cls == "FrequencyAxis":
        with qr.energy_units("1/cm"):
            return qr.FrequencyAxis(10000.0 + 100 * v, 6, 50.0 * f,
                                    atype="upper-half" if v else "complete"), 2, None
    if cls == "DFunction":
        return qr.DFunction(qr.TimeAxis(0.0, 5, 2.0 * f),
                            numpy.arange(5) * (1 + 0.5j) * f + 0.25), 2, None
    if cls == "Operator":
        a = f * numpy.array([[1., 2, 3], [0.5, -1, 4], [7, 0.25, 2]])
        if kdata == "complex":              # general complex matrix, not Hermitian
            a = a + 1j * f * numpy.array([[0.3, -1, 0.5], [2, 0.7, -0.25], [1.5, 3, -0.6]])
        return qr.qm.Operator(data=a), 3, None
    if cls == "Hamiltonian":
        h = numpy.array([[0., 0, 0], [0, 12000., 150.], [0, 150., 12300.]]) * f
        if kdata == "complex":              # complex Hermitian: complex couplings
            h = h.astype(complex)
            for (i, j), c in {(0, 1): 40j, (0, 2): 25 - 60j, (1, 2): 90j}.items():
                h[i, j] += c * f
                h[j, i] += numpy.conj(c * f)
        with qr.energy_units("1/cm"):
            ham = qr.Hamiltonian(data=h)
        return ham, 3, ham
    if cls == "ReducedDensityMatrix":
        r = numpy.array([[0.5, 0.1 + 0.2j, 0], [0.1 - 0.2j, 0.3, 0.05j], [0, -0.05j, 0.2]])
        if kdata == "real":                 # real symmetric
            r = numpy.array([[0.5, 0.1, 0.02], [0.1, 0.3, -0.05], [0.02, -0.05, 0.2]])
        return qr.ReducedDensityMatrix(data=r * f), 3, None
    if cls in ("DensityMatrixEvolution", "ReducedDensityMatrixEvolution"):
        from quantarhei.qm.propagators import dmevolution
        o = getattr(dmevolution, cls)(qr.TimeAxis(0.0, 3, 1.0))
        o.dim = 3
        # "real": real symmetric VALUES in the complex storage the class declares
        # (BasisManagedComplexArray); DensityMatrixEvolution.transform assigns into the
        # existing array, a real dtype could not hold the matrix in a complex basis at all
        o.data = _herm("complex" if kdata == "complex" else "complex-zero-imag", 3, 3) * f
        return o, 3, None
    if cls == "TransitionDipoleMoment":
        # three self-adjoint components in (d,d,3) storage; "real" is the dtype the class
        # allocates itself, "complex": complex Hermitian components
        dd = numpy.moveaxis(_herm("real" if kdata == "real" else "complex", 3, 3), 0, 2) * f
        return qr.TransitionDipoleMoment(data=numpy.ascontiguousarray(dd)), 3, None
    if cls == "StateVectorEvolution":
        psi = qr.StateVector(data=numpy.array([0.6, 0.8j, 0.0]))
        o = qr.StateVectorEvolution(qr.TimeAxis(0.0, 3, 1.0), psi)
        o.data = (_gdata("complex", (3, 3)) * f)
        return o, 3, None
    if cls in ("Molecule", "MoleculeMode"):
        with qr.energy_units("1/cm"):
            m = qr.Molecule(name="mol%d" % v, elenergies=[0.0, 12000.0 * f])
            m.set_dipole(0, 1, [1.0, 0.5 * f, -0.2])
            if cls == "MoleculeMode":
                mod = qr.Mode(frequency=300.0 * f)
                m.add_Mode(mod)
                mod.set_nmax(0, 2)
                mod.set_nmax(1, 2)
                mod.set_HR(1, 0.3 * f)
        if cls == "Molecule":
            cf = systems.corfce(qr.TimeAxis(0.0, 10, 5.0),
                                {"reorg": 30. * f, "cortime": 60., "T": 300.})
            m.set_transition_environment((0, 1), cf)
        ham = m.get_Hamiltonian()           # the molecule keeps this object
        return m, ham.dim, ham
    if cls == "Aggregate":
        agg = systems.aggregate([12000., 12300. * f], systems.chain_J(2, 150.0 * f))
        ham = agg.get_Hamiltonian()
        return agg, ham.dim, ham
    if cls == "CorrelationFunction":
        return systems.corfce(qr.TimeAxis(0.0, 12, 5.0),
                              {"reorg": 30. * f, "cortime": 60., "T": 300.}), 2, None
    if cls == "SpectralDensity":
        with qr.energy_units("1/cm"):
            return qr.SpectralDensity(qr.TimeAxis(0.0, 12, 5.0),
                                      dict(ftype="OverdampedBrownian", reorg=30. * f,
                                           cortime=60., T=300.)), 2, None
    if cls == "AbsSpectrum":
        with qr.energy_units("1/cm"):
            fa = qr.FrequencyAxis(11000.0, 6, 100.0 * f)
        return qr.AbsSpectrum(axis=fa, data=numpy.arange(6) * 0.5 * f + 0.1), 2, None
    if cls == "AbsSpectrumContainer":
        with qr.energy_units("1/cm"):
            fa = qr.FrequencyAxis(11000.0, 6, 100.0 * f)
        c = qr.AbsSpectrumContainer()
        for k in range(2):
            c.set_spectrum(qr.AbsSpectrum(axis=fa, data=numpy.arange(6) * (0.5 + k) * f
                                          + 0.1 * (k + 1)))
        return c, 2, None
    if cls == "TwoDResponse":
        r = _twod(qr, f)
        r.set_t2(20.0 * f)
        return r, 2, None
    if cls == "TwoDResponseContainer":
        c = qr.TwoDResponseContainer(t2axis=qr.TimeAxis(0.0, 2, 10.0))
        for k, t in enumerate([0.0, 10.0]):
            r = _twod(qr, f * (2.0 + k))
            r.set_t2(t)
            c.set_spectrum(r)
        return c, 2, None
    raise isolation.HarnessError("class " + cls)


def _obs_twod(qr, r, pre=""):
    out = {pre + "xaxis.data": r.xaxis.data, pre + "yaxis.data": r.yaxis.data,
           pre + "t2": r.get_t2()}
    for flag in (qr.signal_TOTL, qr.signal_REPH, qr.signal_NONR):
        r.set_data_flag(flag)
        out[pre + "d__data[%s]" % flag] = r.d__data
    r.set_data_flag(qr.signal_TOTL)
    return out


def observe(cls, o):
    """Observable data through public accessors, in a fixed order."""
    qr = isolation.qr()
    if cls in ("TimeAxis", "FrequencyAxis"):
        return {"data": o.data, "start": o.start, "step": o.step, "length": o.length,
                "atype": o.atype, "min": o.min, "max": o.max}
    if cls == "DFunction":
        return {"axis.data": o.axis.data, "data": o.data, "axis.step": o.axis.step}
    if cls == "Operator":
        return {"data": o.data, "dim": o.dim}
    if cls == "Hamiltonian":
        return {"data": o.data, "dim": o.dim, "has_rwa": bool(o.has_rwa)}
    if cls == "ReducedDensityMatrix":
        return {"data": o.data, "populations": o.get_populations(), "dim": o.dim}
    if cls in ("DensityMatrixEvolution", "ReducedDensityMatrixEvolution"):
        return {"data": o.data, "TimeAxis.data": o.TimeAxis.data, "at(1)": o.at(1.0).data}
    if cls == "TransitionDipoleMoment":
        return {"data": o.data, "dim": o.dim, "component1": o.get_compoment_data(1)}
    if cls == "StateVectorEvolution":
        return {"data": o.data, "TimeAxis.data": o.TimeAxis.data, "dim": o.dim}
    if cls in ("Molecule", "MoleculeMode"):
        out = {"name": o.get_name(), "nel": o.nel, "energy0": o.get_energy(0),
               "energy1": o.get_energy(1), "dipole01": o.get_dipole(0, 1),
               "H.data": o.get_Hamiltonian().data,
               "D.data": o.get_TransitionDipoleMoment().data}
        if cls == "MoleculeMode":
            md = o.get_Mode(0)
            out["mode.energy1"] = md.get_energy(1, no_conversion=False)
            out["mode.HR1"] = md.get_HR(1)
            out["mode.nmax"] = [md.get_nmax(0), md.get_nmax(1)]
        else:
            cf = o.get_transition_environment((0, 1))
            out["egcf.data"] = cf.data
            out["egcf.reorg"] = cf.get_reorganization_energy()
        return out
    if cls == "Aggregate":
        return {"H.data": o.get_Hamiltonian().data,
                "D.data": o.get_TransitionDipoleMoment().data,
                "Nel": o.Nel, "Ntot": o.Ntot, "nmono": o.nmono,
                "J01": o.get_resonance_coupling(0, 1),
                "mol1.energy1": o.monomers[1].get_energy(1)}
    if cls in ("CorrelationFunction", "SpectralDensity"):
        out = {"data": o.data, "axis.data": o.axis.data,
               "reorg": o.get_reorganization_energy(), "T": o.get_temperature()}
        return out
    if cls == "AbsSpectrum":
        return {"data": o.data, "axis.data": o.axis.data, "axis.start": o.axis.start}
    if cls == "AbsSpectrumContainer":
        return {"count": o.count, "axis.data": o.axis.data,
                "spectrum0.data": o.get_spectrum(0).data,
                "spectrum1.data": o.get_spectrum("1").data,
                "spectrum1.axis.data": o.get_spectrum(1).axis.data,
                "n": len(o.get_spectra())}
    if cls == "TwoDResponse":
        return _obs_twod(qr, o)
    if cls == "TwoDResponseContainer":
        out = {"length": o.length(), "axis.data": o.axis.data, "itype": o.itype}
        for t in (0.0, 10.0):
            out.update(_obs_twod(qr, o.get_spectrum(t), "t2=%g:" % t))
        return out
    raise isolation.HarnessError("class " + cls)


class _World:
    """One execution of a history on fresh objects."""

    def __init__(self, case):
        qr = isolation.qr()
        isolation.reset_manager()
        self.qr = qr
        self.cls = case["cls"]
        kop, kdata = case.get("kop", "real"), case.get("kdata")
        self.obj, dim, own = _build(self.cls, 0, kdata)
        self.decoy = _build(self.cls, 1, kdata)[0] if case["route"] == "dir" else None
        if own is not None:
            self.S = own
        else:
            with qr.energy_units("1/cm"):
                self.S = qr.Hamiltonian(data=1000.0 * _hermop(dim, 0, kop))
        self.A = qr.qm.SelfAdjointOperator(data=_hermop(dim, 1, kop))
        self.stack = []

    def enter(self, tok):
        qr = self.qr
        kind, arg = tok.split(":", 1)
        if kind == "U":
            c = qr.energy_units(arg)
        elif kind == "B":
            c = qr.eigenbasis_of(self.S if arg == "S" else self.A)
        else:
            raise isolation.HarnessError("token " + tok)
        c.__enter__()
        self.stack.append(c)

    def exit(self):
        c = self.stack.pop()
        c.__exit__(None, None, None)

    def unwind(self):
        while self.stack:
            try:
                self.exit()
            except Exception:
                self.stack = []


def _save(route, w, tmp):
    from quantarhei.core.parcel import save_parcel
    fn = os.path.join(tmp, "obj.qrp")
    if route == "save-load":
        w.obj.save(fn)
        return fn
    if route == "parcel":
        save_parcel(w.obj, fn, comment="c18")
        return fn
    if route == "fileobj":
        f = open(fn, "wb+")
        try:
            w.obj.save(f, test=True)
        except Exception:
            f.close()
            raise
        return f
    if route == "dir":
        dn = os.path.join(tmp, "store")
        w.decoy.savedir(dn)
        w.obj.savedir(dn)
        return dn
    if route == "scopy":
        return w.obj.scopy()
    raise isolation.HarnessError("route " + route)


def _load(route, w, handle):
    from quantarhei.core.parcel import load_parcel
    if route == "save-load":
        return w.obj.load(handle), None
    if route == "parcel":
        return load_parcel(handle), None
    if route == "fileobj":
        try:
            return w.obj.load(handle, test=True), None
        finally:
            handle.close()
    if route == "dir":
        out = w.obj.loaddir(handle)
        return out, "dir"
    if route == "scopy":
        return handle, None
    raise isolation.HarnessError("route " + route)


def _basis_signature(case):
    """What the history did with basis contexts between save and read; computed from the
    history alone (context instances are numbered as they are entered)."""
    ids = itertools.count()
    stack = []
    own = case["cls"] in OWN_S
    ds = 0
    for t in case["pre"]:
        if own and t == "B:S":
            # eigenbasis_of(X).__enter__ first brings X itself to the current basis: an object
            # that IS (or holds) X is thereby represented in the enclosing context's basis
            ds = len([s for s in stack if s[0].startswith("B:")])
        stack.append((t, next(ids)))
    at_save = [s for s in stack if s[0].startswith("B:")]
    usave = ([s[0][2:] for s in stack if s[0].startswith("U:")] or ["int"])[-1]
    for m in case["mid"]:
        if m == "x":
            stack.pop()
        else:
            stack.append((m, next(ids)))
    if case["rd"] == "root":
        stack = []
    elif case["rd"] != "here":
        stack.append((case["rd"], next(ids)))
    at_read = [s for s in stack if s[0].startswith("B:")]
    uread = ([s[0][2:] for s in stack if s[0].startswith("U:")] or ["int"])[-1]
    if case["touch"]:
        ds = len(at_save)
    dr = len(at_read)
    k = 0
    while k < min(len(at_save), len(at_read)) and at_save[k][1] == at_read[k][1]:
        k += 1
    if ds == 0:
        return "saved-in-root-basis/units=%s->%s" % (usave, uread), ds, dr
    if k >= ds:
        rel = "context-still-open"
    elif dr < ds:
        rel = "context-exited"
    else:
        rel = "context-replaced"
    # is one of the contexts the object is represented in complex Hermitian (unitary, not
    # orthogonal transformation)?  B:A follows kop; B:S is the own Hamiltonian of the OWN_S
    # classes (complex only for a complex Hamiltonian), else follows kop
    kop, kdata = case.get("kop", "real"), case.get("kdata")
    for tok, _ in at_save[:ds]:
        if (kdata == "complex" and case["cls"] == "Hamiltonian") if (own and tok == "B:S") \
                else kop == "complex":
            rel += "/complex-hermitian-context"
            break
    return "saved-in-basis-context/%s" % rel, ds, dr


def _run_world(case, with_io, tmp):
    """Returns (status, observed dict | message, extra)."""
    w = _World(case)
    cls, route = case["cls"], case["route"]
    stage = "pre"
    try:
        for t in case["pre"]:
            w.enter(t)
        orig = {}
        if case["touch"]:
            orig["before-save"] = _freeze(observe(cls, w.obj))
            if w.decoy is not None:
                observe(cls, w.decoy)
        handle = None
        if with_io:
            stage = "save"
            handle = _save(route, w, tmp)
        if case["touch"]:
            # the object under test read once more at the very place it was read before the
            # call (it IS in the basis of this place already: reading it again changes nothing
            # in either world)
            stage = "reread-saved-object"
            orig["after-save"] = _freeze(observe(cls, w.obj))
        stage = "mid"
        for m in case["mid"]:
            if m == "x":
                w.exit()
            else:
                w.enter(m)
        target, first = w.obj, w.decoy
        if with_io:
            stage = "load"
            target, kind = _load(route, w, handle)
            if kind == "dir":
                tags = sorted(target.keys(), key=str)
                if tags != [1, 2]:
                    return "dir-tags", "loaddir returned tags %r, expected [1, 2]" % tags, None
                first, target = target[1], target[2]
        stage = "read-ctx"
        if case["rd"] == "root":
            while w.stack:
                w.exit()
        elif case["rd"] != "here":
            w.enter(case["rd"])
        stage = "read"
        res = {"type": type(target).__module__ + "." + type(target).__name__}
        res.update(_freeze(observe(cls, target)))
        if first is not None:
            res.update(_freeze({"dir-first-entry:" + k: v
                                for k, v in observe(cls, first).items()}))
        if with_io:
            # the SAVED object at the end of the history, after everything else was read
            stage = "read-saved-object"
            orig["at-read"] = _freeze(observe(cls, w.obj))
        return "ok", res, orig
    except isolation.HarnessError:
        raise
    except Exception as e:
        where = _lib_frame(e)
        if where is None:
            raise isolation.HarnessError("H harness failure at stage %s: %r in %r"
                                         % (stage, e, case))
        return "raises", (stage, type(e).__name__, str(e)[:200], where), None
    finally:
        w.unwind()
        isolation.reset_manager()


def _freeze(d):
    out = {}
    for k, v in d.items():
        if isinstance(v, (str, bool)) or v is None:
            out[k] = v
        else:
            out[k] = numpy.array(v, copy=True)
    return out


_TWIN = {}          # per worker process: the twin world does not depend on the route


def _twin_world(case):
    """Expected observations: the history on never-saved objects.  Deterministic function of
    (class, history, whether the directory decoy exists), so it is computed once for the
    routes of one history (the cases of one history are consecutive)."""
    key = repr((case["cls"], case.get("kop"), case.get("kdata"), case["pre"], case["touch"],
                case["mid"], case["rd"], case["route"] == "dir"))
    if key not in _TWIN:
        if len(_TWIN) > 8:
            _TWIN.clear()
        _TWIN[key] = _run_world(case, False, None)
    return _TWIN[key]


def _tail(cls, ds, name):
    """Last part of a violation key.  Inside the basis-context family (object represented in a
    context basis when saved) the class and the observable add nothing - it is always the basis
    managed array - and only the kind of object is kept: the object itself is basis managed, or
    it holds basis managed parts.  Elsewhere class and observable are part of the signature."""
    if ds > 0:
        return "holder-of-basis-managed-parts" if cls in HOLDERS else "basis-managed-object"
    return cls if name is None else "%s/%s" % (cls, name)


def eval_h(case):
    sig, ds, dr = _basis_signature(case)
    cls = case["cls"]
    viol = []
    tmp = _mkdtemp("c18h_")
    try:
        st0, exp, _ = _twin_world(case)
        if st0 != "ok":
            # the history itself cannot be executed on objects that were never saved: not a
            # statement about saving (C04/C05 own context transparency); counted, excluded
            return {"nontrivial": False, "outcome": ["twin-world-fails", cls, str(exp)[:80]],
                    "violations": [], "info": {"twin_fail": "%s %r" % (cls, exp)}}
        # temporary files the library makes itself (scopy) also go below the private directory
        saved_tempdir = tempfile.tempdir
        tempfile.tempdir = tmp
        try:
            st1, got, orig = _run_world(case, True, tmp)
        finally:
            tempfile.tempdir = saved_tempdir
    finally:
        shutil.rmtree(tmp, ignore_errors=True)
    hist = "%s%s via %s%s: pre=%s touch=%d | save | mid=%s | load | read=%s" % (
        cls, "[%s matrix]" % case["kdata"] if case.get("kdata") else "", case["route"],
        " (context operators complex Hermitian)" if case.get("kop") == "complex" else "",
        case["pre"], case["touch"], case["mid"], case["rd"])
    nontrivial = bool(case["pre"] or case["mid"] or case["rd"] not in ("here", "root"))
    worst = worst_orig = 0.0
    if st1 == "dir-tags":
        viol.append(("parcel/dir-tags-differ", hist + ": " + got, None))
        return {"nontrivial": nontrivial, "outcome": ["dir-tags", cls], "violations": viol}
    if st1 == "raises":
        stage, tname, msg, where = got
        if "Basis of the object is not on stack" in msg:
            sym = "%s-raises:basis-not-on-stack" % stage
        else:
            sym = "%s-raises:%s" % (stage, tname)
        viol.append(("parcel/%s/%s/%s" % (sym, sig, _tail(cls, ds, None)),
                     "%s -> %s raised %s: %s [%s] (basis depth at save %d, at read %d)"
                     % (hist, stage, tname, msg, where, ds, dr),
                     {"stage": stage, "where": where, "saved_basis_depth": ds,
                      "read_basis_depth": dr}))
        return {"nontrivial": nontrivial, "outcome": ["raises", cls, sym, sig],
                "violations": viol}
    dig = []
    for name in exp:
        if case.get("kop") == "complex" and name.split(":")[-1] in REAL_STORAGE_OBSERVABLES:
            continue
        if name not in got:
            viol.append(("parcel/observable-missing/%s/%s/%s" % (sig, cls, name),
                         hist + ": loaded object lacks observable " + name, None))
            break
        e, g = exp[name], got[name]
        if isinstance(e, (str, bool)) or e is None:
            same = (e == g)
            err = 0.0 if same else float("inf")
        else:
            same, err = approx(g, e, TOL)
            sc = max(float(numpy.max(numpy.abs(e))) if numpy.size(e) else 0.0, 1e-300)
            if same:
                worst = max(worst, err / sc)
            dig.append(_digest(g))
        if not same:
            key = "type-differs" if name == "type" else "values-differ"
            viol.append(("parcel/%s/%s/%s" % (key, sig, _tail(cls, ds, name)),
                         "%s: %s of the loaded object differs from the never-saved twin "
                         "(max abs deviation %s; basis depth at save %d, at read %d)"
                         % (hist, name, err, ds, dr),
                         {"observable": name, "saved_basis_depth": ds, "read_basis_depth": dr,
                          "expected": repr(e)[:400], "observed": repr(g)[:400]}))
            break
    # saving leaves the SAVED object as it was: (a) read at the place of the call before and
    # after it, (b) read at the end of the history it is what the never-saved twin is there
    pairs = []
    if "after-save" in orig:
        pairs.append(("saving-changes-saved-object", orig["before-save"], orig["after-save"],
                      "read again right after the call, differs from what it was right "
                      "before the call"))
    pairs.append(("saved-object-differs-afterwards",
                  {k: v for k, v in exp.items()
                   if k != "type" and not k.startswith("dir-first-entry:")}, orig["at-read"],
                  "read at the end of the history, differs from the never-saved twin"))
    for key, ref, now, what in pairs:
        for name in ref:
            if case.get("kop") == "complex" and name in REAL_STORAGE_OBSERVABLES:
                continue
            e, g = ref[name], now.get(name)
            if isinstance(e, (str, bool)) or e is None:
                same, err = (e == g), None
            elif g is None:
                same, err = False, None
            else:
                same, err = approx(g, e, TOL)
                if same:
                    worst_orig = max(worst_orig, err / max(
                        float(numpy.max(numpy.abs(e))) if numpy.size(e) else 0.0, 1e-300))
            if not same:
                viol.append(("parcel/%s/%s/%s" % (key, sig, _tail(cls, ds, name)),
                             "%s: %s of the SAVED object, %s (max abs deviation %s; basis depth "
                             "at save %d, at read %d)" % (hist, name, what, err, ds, dr),
                             {"observable": name, "saved_basis_depth": ds,
                              "read_basis_depth": dr, "expected": repr(e)[:400],
                              "observed": repr(g)[:400]}))
                break
    return {"nontrivial": nontrivial,
            "outcome": ["ok" if not viol else "bad", cls, dig[:3]],
            "violations": viol, "info": {"dev": {"parcel-values": worst,
                                                 "parcel-saved-object": worst_orig}}}


def histories(tokens, maxdepth, lmid):
    out = []
    for lp in range(maxdepth + 1):
        for pre in itertools.product(tokens, repeat=lp):
            for lm in range(lmid + 1):
                for mid in itertools.product(("x",) + tuple(tokens), repeat=lm):
                    d, ok = lp, True
                    for m in mid:
                        d += -1 if m == "x" else 1
                        if d < 0 or d > maxdepth:
                            ok = False
                            break
                    if not ok:
                        continue
                    for touch in ((0, 1) if lp > 0 else (0,)):
                        rds = ["here"] + [t for t in tokens if d + 1 <= maxdepth] \
                            + (["root"] if d > 0 else [])
                        for rd in rds:
                            out.append({"pre": list(pre), "touch": touch, "mid": list(mid),
                                        "rd": rd})
    out.sort(key=lambda c: (len(c["pre"]) + len(c["mid"]) + (c["rd"] != "here"),
                            len(c["pre"]), len(c["mid"]), c["touch"]))
    return out


def h_bounds(tier):
    if tier == "quick":
        return ["U:1/cm", "B:S", "B:A"], 2, 1
    return ["U:1/cm", "U:eV", "B:S", "B:A"], 2, 3


def h_kinds(tier, cls):
    """Matrix kinds of a class in H: all of them; quick takes the first kind only of the
    classes added for their in-place transform (their second kind is thorough)."""
    kinds = DATA_KINDS.get(cls, [None])
    return kinds[:1] if (tier == "quick" and cls in H_EXTRA_CLASSES) else kinds


def cases_h(tier):
    tokens, maxdepth, lmid = h_bounds(tier)
    hs = histories(tokens, maxdepth, lmid)
    cs = []
    for hh in hs:
        basis = any(t.startswith("B:") for t in hh["pre"] + hh["mid"] + [hh["rd"]])
        for kop in (KOPS if basis else KOPS[:1]):   # no basis context: no context operator
            for cls in H_CLASSES:
                for kdata in h_kinds(tier, cls):
                    for route in ROUTES_OF.get(cls, ROUTES):
                        if route in ATOMIC and hh["mid"]:
                            continue        # scopy saves and loads in one call
                        c = {"part": "H", "cls": cls, "route": route, "kop": kop}
                        if kdata is not None:
                            c["kdata"] = kdata
                        c.update(hh)
                        cs.append(c)
    return cs


# ==========================================================================
# D: histories of savedir calls into one directory
# ==========================================================================
D_TAGS = ["auto", 1, 2, 3, "s"]         # "auto": savedir called without a tag
D_OBJECTS = ["distinct", "one"]         # a fresh object per step / the same instance every step
D_STRIDE = 5                            # coprime with len(CLASSES): step i saves class cast+5i


def d_bounds(tier):
    return 3 if tier == "quick" else 5


def _d_step_class(case, i):
    if case["objects"] == "one":
        return CLASSES[case["cast"] % len(CLASSES)], 0
    return CLASSES[(case["cast"] + D_STRIDE * i) % len(CLASSES)], i


def _d_state(keys):
    """Class of the table a call finds, from the tags in the order the directory lists them
    (what `loaddir` returned after the previous call)."""
    if not keys:
        return "empty-directory"
    last = keys[-1]
    if isinstance(last, str):
        return "last-tag-is-string"
    ints = [k for k in keys if isinstance(k, int)]
    return "last-tag-is-largest-integer" if last == max(ints) else "last-tag-integer-not-largest"


def _d_tagkind(t):
    return "automatic-tag" if t == "auto" else \
        ("string-tag" if isinstance(t, str) else "integer-tag")


def _obs_diff(exp, got):
    """First observable of `got` that differs from `exp` (class R): (name, err) or None."""
    for name, e in exp.items():
        if name not in got:
            return name, "missing"
        g = got[name]
        if isinstance(e, (str, bool)) or e is None:
            if e != g:
                return name, "%r instead of %r" % (g, e)
        else:
            same, err = approx(g, e, TOL)
            if not same:
                return name, err
    return None


def eval_d(case):
    qr = isolation.qr()
    isolation.reset_manager()
    tags = case["tags"]
    hist = "savedir history tags=%r, objects=%s, cast=%d" % (tags, case["objects"], case["cast"])
    viol = []
    tmp = _mkdtemp("c18d_")
    dn = os.path.join(tmp, "store")
    loader = qr.TimeAxis(0.0, 2, 1.0)
    model = {}              # tag -> (class, variant): what every entry has to hold
    keys = []               # tags as listed by the last loaddir
    twins = {}

    def expected(cls, v):
        if (cls, v) not in twins:
            tw = _build(cls, v)[0]
            twins[(cls, v)] = (type(tw).__module__ + "." + type(tw).__name__,
                               _freeze(observe(cls, tw)))
        return twins[(cls, v)]

    def lib_call(stage, f, i, t, state):
        try:
            return True, f()
        except isolation.HarnessError:
            raise
        except Exception as e:
            where = _lib_frame(e)
            if where is None:
                raise isolation.HarnessError("D harness failure at %s: %r in %r"
                                             % (stage, e, case))
            viol.append(("dir/%s-raises:%s/%s/%s" % (stage, type(e).__name__, _d_tagkind(t),
                                                     state),
                         "%s: call no. %d (%s) -> %s raised %s: %s [%s]; directory held "
                         "tags %r" % (hist, i + 1, _d_tagkind(t), stage, type(e).__name__,
                                      str(e)[:160], where, keys), {"where": where}))
            return False, None

    one = None
    try:
        for i, t in enumerate(tags):
            cls, v = _d_step_class(case, i)
            if case["objects"] == "one":
                if one is None:
                    one = _build(cls, v)[0]
                obj = one
            else:
                obj = _build(cls, v)[0]
            state, kind = _d_state(keys), _d_tagkind(t)
            ok, _ = lib_call("savedir", (lambda: obj.savedir(dn)) if t == "auto"
                             else (lambda: obj.savedir(dn, tag=t)), i, t, state)
            if not ok:
                break
            ok, loaded = lib_call("loaddir", lambda: loader.loaddir(dn), i, t, state)
            if not ok:
                break
            now = list(loaded.keys())
            if t == "auto":
                new = [k for k in now if k not in model]
                gone = [k for k in model if k not in now]
                if len(new) != 1 or gone or len(now) != len(model) + 1:
                    if not new and not gone and len(now) == len(model):
                        viol.append(("dir/automatic-tag-displaces-entry/" + state,
                                     "%s: call no. %d without a tag added no entry: the "
                                     "directory lists %r as before, the object went under a "
                                     "tag already in use" % (hist, i + 1, now),
                                     {"before": repr(keys), "after": repr(now)}))
                    else:
                        viol.append(("dir/tags-differ/%s/%s" % (kind, state),
                                     "%s: call no. %d without a tag: directory listed %r "
                                     "before and %r after (expected: the same tags and one "
                                     "new one)" % (hist, i + 1, keys, now),
                                     {"before": repr(keys), "after": repr(now)}))
                    break
                tag = new[0]
            else:
                tag = t
                want = list(model) + ([t] if t not in model else [])
                if sorted(map(repr, now)) != sorted(map(repr, want)):
                    viol.append(("dir/tags-differ/%s/%s" % (kind, state),
                                 "%s: call no. %d with tag %r: directory listed %r before "
                                 "and %r after (expected %r)" % (hist, i + 1, t, keys, now, want),
                                 {"before": repr(keys), "after": repr(now)}))
                    break
            model[tag] = (cls, v)
            bad = None
            for k in now:
                kcls, kv = model[k]
                tname, exp = expected(kcls, kv)
                o = loaded[k]
                where = "entry-just-saved" if k == tag else "earlier-entry"
                if type(o).__module__ + "." + type(o).__name__ != tname:
                    bad = ("dir/entry-type-differs/%s/%s/%s" % (where, kind, state),
                           "%s: after call no. %d the object under tag %r is a %s, a %s was "
                           "saved under it" % (hist, i + 1, k, type(o).__name__, tname))
                    break
                diff = _obs_diff(exp, _freeze(observe(kcls, o)))
                if diff is not None:
                    bad = ("dir/entry-values-differ/%s/%s/%s" % (where, kcls, diff[0]),
                           "%s: after call no. %d observable %s of the %s under tag %r differs "
                           "from the never-saved twin (%s)" % (hist, i + 1, diff[0], kcls, k,
                                                              diff[1]))
                    break
            if bad is not None:
                viol.append((bad[0], bad[1], {"tags_listed": repr(now)}))
                break
            keys = now
    finally:
        shutil.rmtree(tmp, ignore_errors=True)
        isolation.reset_manager()
    return {"nontrivial": len(tags) > 1,
            "outcome": ["ok" if not viol else "bad", repr(keys), case["objects"],
                        [_d_step_class(case, i)[0] for i in range(len(tags))][:2]],
            "violations": viol}


def cases_d(tier):
    depth = d_bounds(tier)
    cs = []
    for n in range(1, depth + 1):
        for seq in itertools.product(D_TAGS, repeat=n):
            users = [repr(t) for t in seq if t != "auto"]
            if len(set(users)) != len(users):
                continue            # a user tag is given once per history
            for objects in D_OBJECTS:
                for cast in range(len(CLASSES)):
                    cs.append({"part": "D", "tags": list(seq), "objects": objects,
                               "cast": cast})
    return cs


# ==========================================================================
# I: data imported INSIDE a context into a basis managed object
# ==========================================================================
# classes which are a basis managed array AND offer save_data/load_data (MatrixData): both
# property factories of utils/types.py (basis managed: Operator ...; units and basis managed:
# Hamiltonian) and every kind of transform() (two indices, three indices in place, vectors)
I_CLASSES = ["Operator", "Hamiltonian", "ReducedDensityMatrix", "DensityMatrixEvolution",
             "TransitionDipoleMoment", "StateVectorEvolution"]
I_EXTS = [".dat", ".txt", ".npy", ".npz"]        # what MatrixData.save_data documents
I_POINTS = ["inside", "after-exit", "later-context"]


def i_bounds(tier):
    """(context tokens, max nesting, matrix kinds per class: None = all of DATA_KINDS,
    extensions: .txt is the same writer and reader as .dat in every class, thorough only)"""
    if tier == "quick":
        return ["U:1/cm", "B:S", "B:A"], 2, 1, [e for e in I_EXTS if e != ".txt"]
    return ["U:1/cm", "U:eV", "B:S", "B:A"], 2, None, I_EXTS


def _i_world(case, inside, tmp, content=None):
    """One execution of an import history.  The exporting object A writes its data to a file
    and the receiving object B (other content, made before any context) reads the file
      inside=True   at the place of the history, i.e. inside the contexts `pre`
      inside=False  before the history, outside every context (the twin)
    then B is read where the history says so.  Returns (status, {point: observables} |
    (stage, type, message, where), exported array | None)."""
    w = _World({"cls": case["cls"], "route": "-", "kop": case.get("kop", "real"),
                "kdata": case.get("kdata")})
    cls = case["cls"]
    A = w.obj
    B = _build(cls, 1, case.get("kdata"))[0]
    fn = os.path.join(tmp, ("in" if inside else "out") + "-export" + case["ext"])
    obs, exported = {}, []
    stage = "build"

    def transfer():
        if content is not None:
            A.data = content
        exported.append(numpy.array(A.data, copy=True))   # what save_data is about to write
        A.save_data(fn)
        B.load_data(fn)

    try:
        if not inside:
            stage = "transfer"
            transfer()
        stage = "enter"
        for t in case["pre"]:
            w.enter(t)
        if case["touch"]:
            stage = "read-before-import"
            observe(cls, B)
        if inside:
            stage = "transfer"
            transfer()
        if case["see_inside"]:
            stage = "inside"
            obs["inside"] = _freeze(observe(cls, B))
        stage = "exit"
        while w.stack:
            w.exit()
        if case["see_outside"]:
            stage = "after-exit"
            obs["after-exit"] = _freeze(observe(cls, B))
        if case["rd"] is not None:
            stage = "enter-later-context"
            w.enter(case["rd"])
            stage = "later-context"
            obs["later-context"] = _freeze(observe(cls, B))
            stage = "exit-later-context"
            w.exit()
        return "ok", obs, exported[0]
    except isolation.HarnessError:
        raise
    except Exception as e:
        where = _lib_frame(e)
        if where is None:
            raise isolation.HarnessError("I harness failure at stage %s: %r in %r"
                                         % (stage, e, case))
        return ("raises", (stage, type(e).__name__, str(e)[:200], where),
                exported[0] if exported else None)
    finally:
        w.unwind()
        isolation.reset_manager()


def _i_ctx(case):
    kinds = set(t[0] for t in case["pre"])
    return {"": "no-context", "U": "units-context", "B": "basis-context",
            "BU": "units+basis-contexts"}["".join(sorted(kinds))]


def eval_i(case):
    cls = case["cls"]
    cell = "%s/%s/%s" % (_i_ctx(case), "receiver-read-inside-before" if case["touch"]
                         else "receiver-new-to-the-context", cls)
    hist = ("%s%s %s: export and import inside pre=%s (receiver made before%s)%s; read: %s"
            % (cls, "[%s matrix]" % case["kdata"] if case.get("kdata") else "", case["ext"],
               case["pre"], ", read inside before the import" if case["touch"] else "",
               " (context operators complex Hermitian)" if case.get("kop") == "complex" else "",
               ", ".join((["inside"] if case["see_inside"] else [])
                         + (["after exit"] if case["see_outside"] else [])
                         + (["inside later " + case["rd"]] if case["rd"] else []))))
    nontrivial = bool(case["pre"])
    tmp = _mkdtemp("c18i_")
    try:
        st0, exp, _ = _i_world(case, False, tmp)
        if st0 != "ok":
            # export/import of this class x format does not work outside contexts either, or
            # the read history itself fails on an object that imported outside (C04/C05)
            return {"nontrivial": False, "outcome": ["twin-fails", cls, case["ext"],
                                                     str(exp[:2])],
                    "violations": [], "info": {"i_twin_fail": "%s %s %s:%s" % (
                        cls, case["ext"], exp[0], exp[1])}}
        st1, got, exported = _i_world(case, True, tmp)
        if st1 == "raises" and got[0] == "transfer" and exported is not None:
            # is it the CONTENT the format of this class cannot carry (e.g. the complex
            # representation of a real matrix in a complex basis in a real-only text table)?
            # the same array exported and imported outside every context tells
            probe = dict(case, pre=[], touch=0, see_inside=0, see_outside=1, rd=None)
            stp, gp, _ = _i_world(probe, False, tmp, content=exported)
            if stp == "raises" and gp[0] == "transfer" and gp[1] == got[1]:
                return {"nontrivial": False,
                        "outcome": ["content-not-carried", cls, case["ext"], got[1]],
                        "violations": [], "info": {"i_content": "%s %s: %s data (%s)" % (
                            cls, case["ext"], exported.dtype, got[1])}}
    finally:
        shutil.rmtree(tmp, ignore_errors=True)
    viol = []
    worst = 0.0
    if st1 == "raises":
        stage, tname, msg, where = got
        sym = "basis-not-on-stack" if "Basis of the object is not on stack" in msg else tname
        viol.append(("ctx-import/%s-raises:%s/%s" % (stage, sym, cell),
                     "%s -> %s raised %s: %s [%s]" % (hist, stage, tname, msg, where),
                     {"stage": stage, "where": where}))
        return {"nontrivial": nontrivial, "outcome": ["raises", cls, stage, sym],
                "violations": viol}
    dig = []
    for point in I_POINTS:
        if point not in exp:
            continue
        bad = None
        for name, e in exp[point].items():
            if case.get("kop") == "complex" and name in REAL_STORAGE_OBSERVABLES:
                continue
            g = got[point].get(name)
            if isinstance(e, (str, bool)) or e is None:
                same, err = (e == g), None
            else:
                same, err = approx(g, e, TOL)
                if same:
                    worst = max(worst, err / max(
                        float(numpy.max(numpy.abs(e))) if numpy.size(e) else 0.0, 1e-300))
                dig.append(_digest(g))
            if not same:
                bad = (name, err, e, g)
                break
        if bad is not None:
            viol.append(("ctx-import/values-differ/read-%s/%s" % (point, cell),
                         "%s: %s of the receiving object read %s differs from the twin that "
                         "imported outside every context (max abs deviation %s)"
                         % (hist, bad[0], point, bad[1]),
                         {"observable": bad[0], "point": point, "expected": repr(bad[2])[:400],
                          "observed": repr(bad[3])[:400]}))
            break
    return {"nontrivial": nontrivial,
            "outcome": ["ok" if not viol else "bad", cls, case["ext"], dig[:2], dig[-1:]],
            "violations": viol, "info": {"dev": {"ctx-import-values": worst}}}


def cases_i(tier):
    tokens, maxdepth, nkinds, exts = i_bounds(tier)
    hs = []
    for lp in range(maxdepth + 1):
        for pre in itertools.product(tokens, repeat=lp):
            for touch in ((0, 1) if lp else (0,)):
                for see_inside in ((0, 1) if lp else (0,)):
                    for rd in [None] + tokens:
                        # without a later context the read after exit is the last one
                        for see_outside in ((1,) if rd is None else (0, 1)):
                            hs.append({"pre": list(pre), "touch": touch,
                                       "see_inside": see_inside, "see_outside": see_outside,
                                       "rd": rd})
    hs.sort(key=lambda h: (len(h["pre"]) + (h["rd"] is not None), len(h["pre"]), h["touch"],
                           h["see_inside"], h["see_outside"]))
    cs = []
    for hh in hs:
        basis = any(t and t.startswith("B:") for t in hh["pre"] + [hh["rd"]])
        for kop in (KOPS if basis else KOPS[:1]):
            for cls in I_CLASSES:
                for kdata in DATA_KINDS.get(cls, [None])[:nkinds]:
                    for ext in exts:
                        c = {"part": "I", "cls": cls, "ext": ext, "kop": kop}
                        if kdata is not None:
                            c["kdata"] = kdata
                        c.update(hh)
                        cs.append(c)
    return cs


# ==========================================================================
# ==========================================================================
# R: histories of exports and imports through ONE file name
# ==========================================================================
# data files: E0/E1 export source no. 0/1 (same shape, other values), E2 exports a source with
# a LONGER first dimension, I imports into a fresh receiver, W overwrites IN PLACE the array the
# most recent receiver hands out as its data.  parcels: S0/S1 save content variant 0/1, L loads.
# After EVERY step every receiver made so far is read again: it holds what the file held when
# it imported (resp. what it held after its own W), and a fresh import returns the last export.
R_DATA_OPS = ["E0", "E1", "E2", "I", "W"]
R_PARCEL_OPS = ["S0", "S1", "L"]
R_PARCEL_ROUTES = ["save-load", "parcel"]


def r_bounds(tier):
    """max number of steps of a data-file history, of a parcel history"""
    return (3, 3) if tier == "quick" else (5, 5)


def _r_cells(tier):
    """(class, base shape, axis) of the data-file histories"""
    cells = [("DFunction", [4], False), ("DFunction", [4], True),
             ("AbsSpectrum", [4], True),
             ("TwoDResponse", [4, 3], False), ("TwoDResponse", [4, 3], True),
             ("DensityMatrixEvolution", [3, 2, 2], False), ("Operator", [3, 3], False)]
    if tier != "quick":
        cells += [("AbsSpectrum", [4, 3], True), ("TwoDResponse", [4], False),
                  ("TwoDResponse", [4], True), ("DensityMatrixEvolution", [4, 3], False)]
    return cells


def _r_supported(case):
    unsupported = _g_supported(case)
    if unsupported is None and case["cls"] == "Operator":
        if case["ext"] == ".mat":
            return "MatrixData.save_data documents .dat .txt .npy .npz only"
        if case["ext"] in (".dat", ".txt") and not case["dtype"].startswith("real"):
            return "text import of MatrixData reads a table of real numbers"
    return unsupported


def _r_source(case, k):
    """(data, shape) of source no. k"""
    shape = list(case["shape"])
    if k == 2:
        shape[0] += 2
        if case["cls"] == "Operator":
            shape[1] += 2
    shape = tuple(shape)
    f = [1.0, -1.75, 0.6][k]
    if case["cls"] == "DensityMatrixEvolution" and len(shape) == 3:
        return _herm(case["dtype"], shape[0], shape[1]) * f + (0.25 * k), shape
    return _gdata(case["dtype"], shape) * f + (0.25 * k), shape


class _RDataEnd:
    """One exporting or receiving object of a data-file history, built as in G."""

    def __init__(self, case, shape, data=None):
        qr = isolation.qr()
        cls, self.axis = case["cls"], None
        self.with_axis = bool(case["axis"])
        N = shape[0]
        src = data is not None
        ta = qr.TimeAxis(0.25, N, 1.5) if src else qr.TimeAxis(5.0, N, 2.0)
        with qr.energy_units("int"):
            fa = qr.FrequencyAxis(0.1, N, 0.01) if src else qr.FrequencyAxis(0.5, N, 0.02)
        if cls == "DFunction":
            self.obj = qr.DFunction(ta, data.copy() if src else numpy.zeros(N))
            self.axis = ta
            self.kw = {"with_axis": ta if self.with_axis else None}
        elif cls == "AbsSpectrum":
            self.obj = qr.AbsSpectrum(axis=fa, data=data.copy() if src else numpy.zeros(N))
            self.axis = fa
            self.kw = {}
        elif cls == "TwoDResponse":
            o = qr.TwoDResponse()
            o.set_axis_1(fa)
            o.set_axis_3(fa)
            if src:
                o.set_data_writable()
                o.data = data.copy()
                o.set_data_protected()
            self.obj, self.axis = o, fa
            self.kw = {"with_axis": fa if self.with_axis else None}
        elif cls == "DensityMatrixEvolution":
            from quantarhei.qm.propagators.dmevolution import DensityMatrixEvolution
            o = DensityMatrixEvolution(ta)
            o.data = data.copy() if src else numpy.zeros(shape, dtype=complex)
            self.obj, self.kw = o, {}
        elif cls == "Operator":
            self.obj = qr.qm.Operator(data=data.copy() if src else numpy.zeros(shape))
            self.kw = {}
        else:
            raise isolation.HarnessError("class " + cls)
        self.cls = cls

    def axis_values(self):
        if self.cls == "AbsSpectrum":
            return numpy.array(self.obj.axis.data, copy=True)
        if self.with_axis:
            return numpy.array(self.axis.data, copy=True)
        return None


def _r_lib(stage, f, case):
    """(True, result) or (False, (stage, type, message, where)) for an exception from inside
    the library; anything else is the harness' fault."""
    try:
        return True, f()
    except isolation.HarnessError:
        raise
    except Exception as e:
        where = _lib_frame(e)
        if where is None:
            raise isolation.HarnessError("R harness failure at %s: %r in %r" % (stage, e, case))
        return False, (stage, type(e).__name__, str(e)[:160], where)


def _r_opkind(op):
    return {"E": "later-export", "S": "later-export", "I": "later-import", "L": "later-import",
            "W": "write-into-another-receiver"}[op[0]]


def _eval_r_data(case, tmp):
    cls, ext, seq = case["cls"], case["ext"], case["ops"]
    cell = "%s/%s/%s" % (ext, "with-axis" if case["axis"] else "no-axis",
                         "real" if case["dtype"].startswith("real") else "complex")
    hist = "%s %s data-file history %s" % (cls, cell, " ".join(seq))
    unsupported = _r_supported(case)
    fn = os.path.join(tmp, "scratch" + ext)
    viol, recs = [], []
    held = None                     # (data, axis values | None) the file holds
    nimp = 0

    def refused(err):
        return {"nontrivial": False, "outcome": ["refused", cls, cell], "violations": [],
                "info": {"unsupported": "%s %s: %s" % (cls, cell, unsupported)}}

    def raised(err):
        stage, tname, msg, where = err
        viol.append(("reuse/%s-raises:%s/%s/%s" % (stage, tname, cls, cell),
                     "%s -> %s raised %s: %s [%s]" % (hist, stage, tname, msg, where),
                     {"where": where}))

    def check_receivers(i, op):
        for j, r in enumerate(recs):
            if r.get("fresh"):
                what = ("import-differs-from-last-export", "just imported, differs from the "
                        "array exported last")
            else:
                what = ("imported-data-changed-by-%s" % _r_opkind(op),
                        "imported at step %d, changed at step %d (%s)" % (r["step"] + 1,
                                                                         i + 1, op))
            got = numpy.asarray(r["end"].obj.data)
            bad = None
            if got.shape != r["data"].shape:
                bad = "data shape %s instead of %s" % (got.shape, r["data"].shape)
            else:
                ok, err = _entrywise(got, r["data"])
                if not ok:
                    bad = "data (worst relative deviation of an entry %g)" % err
            if bad is None and r["axis"] is not None:
                ax = r["end"].axis_values()
                if ax.shape != r["axis"].shape:
                    bad = "axis shape %s" % (ax.shape,)
                else:
                    ok, err = approx(ax, r["axis"], TOL)
                    if not ok:
                        bad = "axis values (max abs deviation %g)" % err
            r["fresh"] = False
            if bad is not None:
                viol.append(("reuse/%s/%s/%s" % (what[0], cls, cell),
                             "%s: receiver no. %d %s: %s" % (hist, j + 1, what[1], bad),
                             {"step": i + 1, "receiver": j + 1}))
                return False
        return True

    def do_import(i):
        end = _RDataEnd(case, held[0].shape)
        ok, err = _r_lib("import", lambda: end.obj.load_data(fn, **end.kw), case)
        if not ok:
            return err
        recs.append({"end": end, "data": held[0].copy(), "step": i, "fresh": True,
                     "axis": None if held[1] is None else held[1].copy()})
        return None

    for i, op in enumerate(list(seq) + ["I"]):      # a final import: the file is the last export
        if op[0] == "E":
            data, shape = _r_source(case, int(op[1]))
            src = _RDataEnd(case, shape, data)
            ok, err = _r_lib("export", lambda: src.obj.save_data(fn, **src.kw), case)
            if not ok:
                if unsupported is not None:
                    return refused(err)
                raised(err)
                break
            held = (data, src.axis_values())
        elif op == "I":
            err = do_import(i)
            if err is not None:
                if unsupported is not None:
                    return refused(err)
                raised(err)
                break
            nimp += 1
        elif op == "W":
            r = recs[-1]
            d = r["end"].obj.data
            try:
                d[...] = d * (-1.0) + 0.5           # in place, whatever array is handed out
            except ValueError:
                pass                                 # not writable: nothing was written
            r["data"] = numpy.array(r["end"].obj.data, copy=True)   # its own new content
            ax = r["end"].axis_values()
            r["axis"] = None if ax is None else ax
        if not check_receivers(i, op):
            break
    return {"nontrivial": "I" in seq,        # a receiver is read again after a later step
            "outcome": ["ok" if not viol else "bad", cls, cell, len(recs),
                        _digest(recs[-1]["end"].obj.data) if recs else None],
            "violations": viol}


def _eval_r_parcel(case, tmp):
    from quantarhei.core.parcel import save_parcel, load_parcel
    cls, route, seq = case["cls"], case["route"], case["ops"]
    hist = "%s parcel history via %s: %s" % (cls, route, " ".join(seq))
    fn = os.path.join(tmp, "scratch.qrp")
    viol, recs, twins = [], [], {}
    held = None

    def expected(v):
        if v not in twins:
            tw = _build(cls, v)[0]
            twins[v] = (type(tw).__module__ + "." + type(tw).__name__,
                        _freeze(observe(cls, tw)))
        return twins[v]

    loader = _build(cls, 1)[0]
    for i, op in enumerate(list(seq) + ["L"]):
        if op[0] == "S":
            o = _build(cls, int(op[1]))[0]
            ok, err = _r_lib("save", (lambda: o.save(fn)) if route == "save-load"
                             else (lambda: save_parcel(o, fn)), case)
            held = int(op[1])
        else:
            ok, err = _r_lib("load", (lambda: loader.load(fn)) if route == "save-load"
                             else (lambda: load_parcel(fn)), case)
            if ok:
                recs.append({"obj": err, "v": held, "step": i, "fresh": True})
        if not ok:
            stage, tname, msg, where = err
            viol.append(("reuse/%s-raises:%s/%s/parcel" % (stage, tname, cls),
                         "%s -> %s raised %s: %s [%s]" % (hist, stage, tname, msg, where),
                         {"where": where}))
            break
        bad = None
        for j, r in enumerate(recs):
            tname, exp = expected(r["v"])
            o = r["obj"]
            what = "loaded-object-differs-from-last-save" if r["fresh"] else \
                "loaded-object-changed-by-%s" % _r_opkind(op)
            r["fresh"] = False
            if type(o).__module__ + "." + type(o).__name__ != tname:
                bad = (what, "object no. %d is a %s" % (j + 1, type(o).__name__))
                break
            diff = _obs_diff(exp, _freeze(observe(cls, o)))
            if diff is not None:
                bad = (what, "observable %s of object no. %d (loaded at step %d) differs from "
                       "the never-saved twin after step %d (%s)" % (diff[0], j + 1,
                                                                   r["step"] + 1, i + 1,
                                                                   diff[1]))
                break
        if bad is not None:
            viol.append(("reuse/%s/%s/parcel" % (bad[0], cls), "%s: %s" % (hist, bad[1]),
                         {"step": i + 1}))
            break
    return {"nontrivial": "L" in seq,
            "outcome": ["ok" if not viol else "bad", cls, route, len(recs), held],
            "violations": viol}


def eval_r(case):
    isolation.reset_manager()
    tmp = _mkdtemp("c18r_")
    try:
        if case["fmt"] == "parcel":
            return _eval_r_parcel(case, tmp)
        return _eval_r_data(case, tmp)
    finally:
        shutil.rmtree(tmp, ignore_errors=True)
        isolation.reset_manager()


def _r_sequences(ops, first, maxlen, needs_receiver):
    """All op sequences of length <= maxlen which start with `first` (the first export is
    no. 0: the sources are interchangeable); ops of `needs_receiver` only after an import."""
    out = []
    for n in range(1, maxlen + 1):
        for rest in itertools.product(ops, repeat=n - 1):
            seq = (first,) + rest
            ok, have = True, False
            for o in seq:
                if o in needs_receiver and not have:
                    ok = False
                    break
                have = have or o in ("I", "L")
            if ok:
                out.append(list(seq))
    return out


def cases_r(tier):
    ldata, lparcel = r_bounds(tier)
    cs = []
    for seq in _r_sequences(R_DATA_OPS, "E0", ldata, ("W",)):
        for cls, shape, axis in _r_cells(tier):
            for ext in EXTS:
                for f in ("real", "complex"):
                    cs.append({"part": "R", "fmt": "data", "cls": cls, "ext": ext, "dtype": f,
                               "shape": shape, "axis": axis, "ops": seq})
    for seq in _r_sequences(R_PARCEL_OPS, "S0", lparcel, ()):
        for cls in H_CLASSES:
            for route in R_PARCEL_ROUTES:
                if route not in ROUTES_OF.get(cls, ROUTES):
                    continue
                cs.append({"part": "R", "fmt": "parcel", "cls": cls, "route": route,
                           "ops": seq})
    return cs


# ==========================================================================
# S: several objects one after another in ONE open file object
# ==========================================================================
# Parcel.save writes at the current position of a file object and load_parcel / Saveable.load
# read from the current position: a series of objects can be stored in one open file and read
# back, and the position of the file object is part of the history.  Product:
#   objects   2 or 3 objects, object no. k being the content variant k of its class, so two
#             objects of one class differ; the sequence of classes: quick - every class in every
#             position (rotations of the class list, S_STRIDE apart) + the complete product
#             over a small alphabet; thorough - every ordered pair of all classes, the complete
#             product of triples over S_ALPHA3, rotations;
#   medium    a binary file opened "wb+" / io.BytesIO;
#   save      obj.save(f) | save_parcel(obj, f)        (every object of the series the same way)
#   load      x.load(f) (x: the saved object itself) | load_parcel(f)
#   order     "consecutive": rewind once, n loads in a row;
#             every permutation of the positions (the identity too), the file object moved to
#             the offset f.tell() gave before the object was saved;
#             "read-back": every object is read back right after it was saved (seek to its
#             offset, load, seek to the end), then all consecutively.
# Oracle: the object read at the place of object no. k has the class and the observable data of
# the never-saved twin of object no. k (class R).  Classes that are no Saveable
# (StateVectorEvolution) are saved with save_parcel and read by x.load of a TimeAxis.
S_STRIDE = {2: [5], 3: [5, 7]}
S_ALPHA2 = ["TimeAxis", "Operator", "DFunction", "Hamiltonian", "Aggregate",
            "AbsSpectrumContainer"]
S_ALPHA3 = {"quick": ["TimeAxis", "Operator", "CorrelationFunction"],
            "thorough": ["TimeAxis", "FrequencyAxis", "Operator", "DFunction", "Hamiltonian",
                         "Molecule", "CorrelationFunction", "TwoDResponse"]}
S_MEDIA = ["file", "bytesio"]
S_SAVE = ["save-method", "save_parcel"]
S_LOAD = ["load-method", "load_parcel"]


def _s_orders(n):
    out = [["consecutive", list(range(n))]]
    for p in itertools.permutations(range(n)):
        out.append(["by-offset-in-order" if list(p) == list(range(n))
                    else "by-offset-other-order", list(p)])
    out.append(["read-back-after-each-save", list(range(n))])
    return out


def eval_s(case):
    import io
    from quantarhei.core.parcel import save_parcel, load_parcel
    qr = isolation.qr()
    isolation.reset_manager()
    classes, medium, sroute, lroute = case["classes"], case["medium"], case["save"], case["load"]
    n = len(classes)
    hist0 = "series (%s) in one %s, %s / %s" % (
        ", ".join(classes), "binary file" if medium == "file" else "BytesIO", sroute, lroute)
    viol, seen = [], set()
    tmp = _mkdtemp("c18s_") if medium == "file" else None
    twins = []
    for k, cls in enumerate(classes):
        tw = _build(cls, k)[0]
        twins.append((type(tw).__module__ + "." + type(tw).__name__, _freeze(observe(cls, tw))))
    tagr = "saved-by-%s/loaded-by-%s" % (sroute, lroute)
    count, last = 0, None

    def add(key, what):
        if key not in seen:
            seen.add(key)
            viol.append((key, what, None))

    def lib(stage, f, hist):
        try:
            return True, f()
        except isolation.HarnessError:
            raise
        except Exception as e:
            where = _lib_frame(e)
            if where is None:
                raise isolation.HarnessError("S harness failure at %s: %r in %r"
                                             % (stage, e, case))
            add("stream/%s-raises:%s/%s" % (stage, type(e).__name__, tagr),
                "%s -> %s raised %s: %s [%s]" % (hist, stage, type(e).__name__, str(e)[:160],
                                                 where))
            return False, None

    def save(o, f, hist):
        if sroute == "save-method" and isinstance(o, qr.Saveable):
            return lib("save", lambda: o.save(f), hist)[0]
        return lib("save", lambda: save_parcel(o, f), hist)[0]

    def load(o, f, hist):
        if lroute == "load-method":
            x = o if isinstance(o, qr.Saveable) else qr.TimeAxis(0.0, 2, 1.0)
            return lib("load", lambda: x.load(f), hist)
        return lib("load", lambda: load_parcel(f), hist)

    def compare(k, got, okind, hist, when):
        tname, exp = twins[k]
        if type(got).__module__ + "." + type(got).__name__ != tname:
            add("stream/object-type-differs/%s/%s/object-no-%d-of-%d" % (tagr, okind, k + 1, n),
                "%s: %s the place of object no. %d (a %s) gave a %s"
                % (hist, when, k + 1, classes[k], type(got).__name__))
            return
        diff = _obs_diff(exp, _freeze(observe(classes[k], got)))
        if diff is not None:
            add("stream/object-values-differ/%s/%s/%s/%s" % (classes[k], diff[0], tagr, okind),
                "%s: %s the place of object no. %d (%s) observable %s differs from the "
                "never-saved twin of that object (%s)"
                % (hist, when, k + 1, classes[k], diff[0], diff[1]))

    try:
        for okind, order in _s_orders(n):
            count += 1
            hist = "%s, read order %s %r" % (hist0, okind, order)
            isolation.reset_manager()
            objs = [_build(cls, k)[0] for k, cls in enumerate(classes)]
            f = open(os.path.join(tmp, "series%d.qrp" % count), "wb+") if medium == "file" \
                else io.BytesIO()
            try:
                offs, ok = [], True
                for k, o in enumerate(objs):
                    offs.append(f.tell())
                    if not save(o, f, hist):
                        ok = False
                        break
                    if okind == "read-back-after-each-save":
                        f.seek(offs[k])
                        ok, got = load(o, f, hist)
                        if not ok:
                            break
                        compare(k, got, okind, hist, "right after it was saved, reading at")
                        f.seek(0, 2)
                if not ok:
                    continue
                if okind in ("consecutive", "read-back-after-each-save"):
                    f.seek(0)
                for k in order:
                    if okind.startswith("by-offset"):
                        f.seek(offs[k])
                    ok, got = load(objs[k], f, hist)
                    if not ok:
                        break
                    compare(k, got, okind, hist, "reading at")
                    last = got
            finally:
                f.close()
    finally:
        if tmp is not None:
            shutil.rmtree(tmp, ignore_errors=True)
        isolation.reset_manager()
    return {"nontrivial": True, "n": count - 1, "violations": viol,
            "outcome": ["ok" if not viol else "bad", classes, medium, sroute, lroute, count,
                        type(last).__name__ if last is not None else None]}


def _s_rotations(classes, n):
    out = []
    for stride in S_STRIDE[n]:
        for cast in range(len(classes)):
            out.append([classes[(cast + stride * i) % len(classes)] for i in range(n)])
    return out


def cases_s(tier):
    seqs, have = [], set()

    def add(seq):
        if tuple(seq) not in have:
            have.add(tuple(seq))
            seqs.append(list(seq))
    if tier == "quick":
        for s in _s_rotations(H_CLASSES, 2)[:len(H_CLASSES)]:
            add(s)
        for s in itertools.product(S_ALPHA2, repeat=2):
            add(s)
        for s in _s_rotations(H_CLASSES, 3)[:len(H_CLASSES)]:
            add(s)
    else:
        for s in itertools.product(H_CLASSES, repeat=2):
            add(s)
        for s in _s_rotations(H_CLASSES, 3):
            add(s)
    for s in itertools.product(S_ALPHA3[tier], repeat=3):
        add(s)
    seqs.sort(key=len)
    return [{"part": "S", "classes": s, "medium": m, "save": sv, "load": ld}
            for s in seqs for m in S_MEDIA for sv in S_SAVE for ld in S_LOAD]


def eval_case(case):
    if case["part"] == "S":
        return eval_s(case)
    if case["part"] == "G":
        return eval_g(case)
    if case["part"] == "X":
        return eval_x(case)
    if case["part"] == "D":
        return eval_d(case)
    if case["part"] == "I":
        return eval_i(case)
    if case["part"] == "R":
        return eval_r(case)
    return eval_h(case)


def replay(case):
    return eval_case(case)["violations"]


def cases(tier):
    return cases_g(tier) + cases_x(tier) + cases_r(tier) + cases_s(tier) + cases_d(tier) \
        + cases_i(tier) + cases_h(tier)


def _collect_i(infos):
    twin, content = {}, {}
    for i in infos:
        for k, d in (("i_twin_fail", twin), ("i_content", content)):
            if k in i:
                d[i[k]] = d.get(i[k], 0) + 1
    return twin, content


def _collect(run, infos):
    worst, unsup, twin, squeezed = {}, {}, {}, {}
    for i in infos:
        for k, v in (i.get("dev") or {}).items():
            worst[k] = max(worst.get(k, 0.0), float(v))
        if "unsupported" in i:
            unsup[i["unsupported"]] = unsup.get(i["unsupported"], 0) + 1
        if "twin_fail" in i:
            twin[i["twin_fail"]] = twin.get(i["twin_fail"], 0) + 1
        if "squeezed" in i:
            k = i["squeezed"].split(":")[0]
            squeezed[k] = squeezed.get(k, 0) + 1
    return worst, unsup, twin, squeezed


def run(run):
    tokens, maxdepth, lmid = h_bounds(run.tier)
    run.rule = ("G: full product class x extension x data flavour x shape x axis, every cell "
                "the class offers must round-trip (cells the class does not offer are tried, "
                "must be refused or round-trip, and are counted trivial); H: every history "
                "pre(<=%d contexts) [touch] save mid(<=%d exits/entries) load read(here | one "
                "more context | after leaving all) x operator class of the context operators "
                "{real symmetric, complex Hermitian} (histories with a basis context) x class "
                "x matrix kind {real, complex} (basis managed matrix classes) x route; "
                "non-trivial = at least one context anywhere in the history; D: every "
                "sequence of <=%d savedir calls into one directory, tag of each call in "
                "{automatic, 1, 2, 3, 's'} (user tags not repeated) x 16 casts of classes x "
                "{fresh object per call, one instance}, loaddir after every call; "
                "non-trivial = at least two calls; H also reads the SAVED object before/after "
                "the call and at the end of the history; I: every history pre(<=%d contexts) "
                "[read receiver] export+import [read inside] exit all [read] [one later context, "
                "read] x context operator class x class x matrix kind x extension, "
                "non-trivial = import inside at least one context; R: every sequence of <=%d "
                "steps {export 0/1/longer, import, write in place} on one data file name x "
                "class x extension x dtype x axis and of <=%d steps {save 0/1, load} on one "
                "parcel name x class x route, every receiver read again after every step, "
                "non-trivial = a receiver exists before the last step; X: full product "
                "class x extension x {real, complex} x shape x kind of frequency axis (signs "
                "and sizes of its values) x every energy unit of the Manager, export and "
                "import with the axis inside energy_units(u), non-trivial = units other "
                "than the internal ones; S: 2-3 objects saved one after another into ONE open "
                "file object x sequence of classes (every class in every position, complete "
                "products over class alphabets) x medium {file, BytesIO} x save route x load "
                "route x read order (consecutive, every permutation by recorded offsets, read "
                "back after each save)"
                % ((maxdepth, lmid, d_bounds(run.tier), i_bounds(run.tier)[1])
                   + r_bounds(run.tier)))
    run.assumptions = [
        "expected values of H come from a twin world: the same history on identically built "
        "objects that are never saved (context transparency itself is C04/C05)",
        "observables are read through public accessors only",
        "third-party containers (numpy.save/savetxt, scipy.io, dill) are trusted",
        "worlds with complex Hermitian context operators do not compare the transition dipole "
        "moment array of molecules and aggregates: the class stores it in a real array which "
        "cannot hold the operator in a complex basis (lossy with or without saving)",
        "G values: compared per entry and per real/imaginary part relative to the size of "
        "that very number (all formats are lossless), for data multiplied by 1e-6 ... 1e-14 "
        "as for data of the order one",
        "D claims only: savedir(tag=t) sets entry t, savedir() adds an entry under a tag that "
        "was not in use, both leave all other entries alone, loaddir returns every entry with "
        "the class and the observable data of a never-saved twin; nothing is claimed about "
        "the value of an automatic tag, nor about a user tag given twice in one history",
        "saved object: reading an object twice at the same place is idempotent (the second "
        "read right after save is made in the twin world as well)",
        "I: export and import happen at the same place of the history (a file written in one "
        "context and read in another one holds numbers of another representation: nothing is "
        "claimed); the twin exports and imports outside every context; context operators are "
        "objects of their own except B:S of a Hamiltonian, which is the exporting Hamiltonian",
        "I: a cell whose export/import raises is not offered when the same array raises the "
        "same exception type when exported/imported outside every context (counted in "
        "import_content_not_carried_by_format), or when the twin itself cannot export/import "
        "(import_cells_failing_outside_contexts)",
        "R: a longer, never a shorter array is exported over a file receivers imported from; "
        "after a write in place only the OTHER receivers and the file are claimed unchanged, "
        "the written receiver is re-read and taken as it is",
        "X: export and import are made in the same units context (a file holds the numbers "
        "of the units it was written in); the expected axis values are the ones the exported "
        "axis itself shows at the same place (inside) and showed before the context (internal "
        "units), so no conversion factor is an input of the oracle",
        "S: the caller moves the file object only to offsets f.tell() returned before a save, "
        "to the start and to the end; objects that are no Saveable are written with "
        "save_parcel and read by the load method of a TimeAxis",
        "G shape rule: where the layout of the file cannot tell a dimension of length one "
        "from no dimension (header-less .dat/.txt tables without axis; [axis | data] layout "
        "with one data column) the loaded shape may be the exported one with unit dimensions "
        "dropped (a 1-D array of one point may so come back 0-dimensional from text); "
        "everywhere else the shape must be exact"]
    run.bounds = {"G": {"extensions": EXTS,
                        "classes": ["DFunction", "AbsSpectrum", "TwoDResponse",
                                    "DensityMatrixEvolution"],
                        "data_scale_powers_of_ten": [0] + G_SCALES[run.tier],
                        "scaled_flavours": list(G_SCALED_FLAVOURS)},
                  "X": {"classes": X_CLASSES, "extensions": EXTS, "units": X_UNITS,
                        "axis_kinds": X_AXES, "axis_lengths": x_bounds(run.tier)[0],
                        "second_dimensions": x_bounds(run.tier)[1],
                        "data_flavours": x_bounds(run.tier)[2]},
                  "D": {"tags": D_TAGS, "max_calls": d_bounds(run.tier),
                        "objects": D_OBJECTS, "casts": len(CLASSES)},
                  "H": {"contexts": tokens, "max_nesting": maxdepth, "max_mid_ops": lmid,
                        "classes": H_CLASSES, "routes": ROUTES, "routes_of": ROUTES_OF,
                        "context_operator_class": KOPS,
                        "matrix_kind": {c: h_kinds(run.tier, c) for c in DATA_KINDS}},
                  "I": {"contexts": i_bounds(run.tier)[0],
                        "max_nesting": i_bounds(run.tier)[1], "classes": I_CLASSES,
                        "extensions": i_bounds(run.tier)[3], "read_points": I_POINTS,
                        "matrix_kinds_per_class": i_bounds(run.tier)[2] or "all"},
                  "S": {"objects_per_file": [2, 3], "media": S_MEDIA, "save_routes": S_SAVE,
                        "load_routes": S_LOAD,
                        "read_orders": ["consecutive", "every permutation by offset",
                                        "read-back-after-each-save"],
                        "pair_alphabet": S_ALPHA2 if run.tier == "quick" else H_CLASSES,
                        "triple_alphabet": S_ALPHA3[run.tier], "rotation_strides": S_STRIDE},
                  "R": {"data_ops": R_DATA_OPS, "parcel_ops": R_PARCEL_OPS,
                        "max_steps_data": r_bounds(run.tier)[0],
                        "max_steps_parcel": r_bounds(run.tier)[1],
                        "data_cells": [list(c) for c in _r_cells(run.tier)],
                        "parcel_routes": R_PARCEL_ROUTES}}
    ig = run_grid(run, cases_g(run.tier), eval_case, section="G-formats")
    ig += run_grid(run, cases_x(run.tier), eval_case, section="X-axis-in-units")
    ir = run_grid(run, cases_r(run.tier), eval_case, section="R-file-reuse")
    run_grid(run, cases_s(run.tier), eval_case, section="S-series-in-one-file-object")
    run_grid(run, cases_d(run.tier), eval_case, section="D-directories")
    ii = run_grid(run, cases_i(run.tier), eval_case, section="I-import-in-context")
    ih = run_grid(run, cases_h(run.tier), eval_case, section="H-parcels")
    worst, unsup, twin, squeezed = _collect(run, ig + ir + ii + ih)
    itwin, icontent = _collect_i(ii)
    run.note(worst_relative_deviation=worst, cells_not_offered_by_class=unsup,
             twin_world_failures=twin, cells_loaded_with_unit_dimensions_dropped=squeezed,
             import_cells_failing_outside_contexts=itwin,
             import_content_not_carried_by_format=icontent)
    if twin:
        raise isolation.HarnessError("twin world failed for %d histories: %r"
                                     % (sum(twin.values()), list(twin)[:3]))
