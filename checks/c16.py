"""C16 Hierarchical equations: complete index set, consistent links, valid states.

E-grid, two sections.

index   every (number of baths K, depth D) of the bound, for two construction paths
        (KTHierarchy(ham, sbi, D) directly / Aggregate.get_KTHierarchy(D)) and both
        admissible correlation-function types.  No propagation.  Oracles
        (mc/refmodels/hierarchy_index.py, class R / exact integers):
          index-set/*   hinds == compositions level by level, no duplicate, hsize =
                        C(D+K,K), levels / levlengths
          links/*       nm1 / np1: present exactly inside, absent exactly at the
                        boundaries, targets n -/+ e_k, mutually inverse
          gamma/*       Gamma_n = sum_k n_k / tau_k (decay factor of the ADO; needed
                        for the convergence clause, listed in DESIGN 3/C16)

dyn     every (system, bath, construction path, RWA reference, time step) x EVERY
        member of a spanning set of valid initial density matrices (linearity
        closure: the map rho(0) -> rho(t) of a freshly built hierarchy is linear, the
        N^2 states |a><a|, (|a>+|b>)(..)/2, (|a>+i|b>)(..)/2 span all N x N matrices)
        x every depth 0..Dmax.  A FRESH hierarchy + propagator is built for every
        single propagation (isolation from C15).  Oracles:
          trace/*, hermiticity/*   at every stored time (R)
          closed-system/*          all lambda = 0: equals expm(-i(H-Om)t) rho0 expm(+..)
                                   in the same rotating frame (T: computed Taylor bound)
          analytic/*               all J = 0, lambda > 0, high-temperature bath type:
                                   error vs exp(-i(w-Om)t - g(t)) (optical), vs
                                   exp(-i w_kl t - g_k - g_l^*) (inter-site), constant
                                   populations; must not increase with depth and must be
                                   <= TOL at Dmax (Q, calibrated, admissible points
                                   kappa <= KAPPA_MAX only, see TOL_* below)
"""
import numpy

from mc import isolation, systems
from mc.explore import run_grid, product, rotate
from mc.refmodels import hierarchy_index as HI
from mc.refmodels import lineshape as LS
from mc.refmodels import closed_rwa as CR

LEVEL = "model_checking"

RTOL = 1e-10            # class R
TAYLOR_ORDER = 4        # declared default of KTHierarchyPropagator.propagate(L=4)
MONO_FLOOR = 1e-9       # below this the error sequence is rounding noise
# class Q: error at the deepest level, relative to the largest initial element of the group.
# The truncation error of a depth-D hierarchy is governed by the dimensionless coupling
#   kappa = sqrt(2 kB T * (sum of reorganisation energies of the baths acting on the
#           element)) / (smallest bath relaxation rate involved)
# (fluctuation amplitude over relaxation rate).  The "small at the deepest level" number is
# only applied to ADMISSIBLE points kappa <= KAPPA_MAX (DESIGN 1.5); for larger kappa only
# the monotone decrease is demanded (counted in the evidence).  Calibration on the unchanged
# tree: optical worst 2.8e-4 (quick, Dmax 5, kappa 1.05) / 9.2e-4 (thorough, Dmax 6, kappa
# 1.49); inter-site worst 3.2e-3 (quick, Dmax 5, kappa 1.49) / 7.4e-4 (thorough, Dmax 6);
# inadmissible points (kappa 1.9-2.1, Dmax 6) reach 5.1e-3.  Smallest effects among the
# mutants tried: 5e-2 (optical), 9e-2 (inter-site).
KAPPA_MAX = 1.5
TOL_OPTICAL = 5e-3
TOL_INTERSITE = 1.75e-2
TOL_POPULATION = 5e-3
BATH_GUARD_RTOL = 1e-5  # library uses CODATA-2014 constants: 1e-6 relative allowed

HT = "OverdampedBrownian-HighTemperature"
OB = "OverdampedBrownian"

E0 = 10000.0


# ----------------------------------------------------------------------------
# builders
# ----------------------------------------------------------------------------
def _bath_list(bath, nsites):
    if isinstance(bath, list):
        return [dict(b) for b in bath]
    return [dict(bath) for _ in range(nsites)]


def _build(case, depth):
    """Fresh time axis, system, hierarchy and propagator -> (propagator, ham, ta)."""
    qr = isolation.qr()
    from quantarhei import KTHierarchy, KTHierarchyPropagator
    en = [float(e) for e in case["energies"]]
    n = len(en)
    J = case.get("J") or [[0.0] * n for _ in range(n)]
    ta = systems.time_axis(int(case["nt"]), float(case["dt"]))
    baths = _bath_list(case["bath"], n)
    if case["via"] == "agg":
        agg = systems.aggregate(en, J=J, bath=baths, ta=ta, e0=float(case.get("e0", 0.0)))
        isolation.reset_units()
        if case.get("sec") == "index":
            hy = agg.get_KTHierarchy(depth)
            pr = None
        else:
            pr = agg.get_KTHierarchyPropagator(depth)
            hy = pr.hy
    else:
        ham, sbi = systems.ham_sbi(en, J, baths, ta, e0=float(case.get("e0", 0.0)))
        isolation.reset_units()
        if case.get("rwa", "blocks") == "per-site":
            ham.set_rwa(list(range(n + 1)))
        else:
            ham.set_rwa([0, 1])
        hy = KTHierarchy(ham, sbi, depth)
        pr = KTHierarchyPropagator(ta, hy) if case.get("sec") != "index" else None
    isolation.reset_units()
    return pr, hy, ta


# ----------------------------------------------------------------------------
# section index
# ----------------------------------------------------------------------------
def _index_case(K, depth, via, ftype):
    baths = [{"ftype": ftype, "reorg": 20.0 + 10.0 * k, "cortime": 40.0 + 15.0 * k,
              "T": 300.0} for k in range(K)]
    return {"sec": "index", "K": K, "depth": depth, "via": via,
            "energies": [E0 + 100.0 * k for k in range(K)], "J": None,
            "bath": baths, "nt": 20, "dt": 1.0}


def eval_index(case):
    K, depth = case["K"], case["depth"]
    _, hy, _ = _build(case, depth)
    viol = []
    tag = "K=%d" % K
    hinds = numpy.array(hy.hinds)
    if hy.nbath != K:
        viol.append(("index-set/nbath", "hierarchy has %s baths, system has %d"
                     % (hy.nbath, K), None))
        return {"nontrivial": True, "outcome": "nbath", "violations": viol}
    for name, det in HI.check_index_set(hinds, hy.levels, hy.levlengths, hy.hsize, K, depth):
        viol.append(("index-set/%s/%s" % (name, tag),
                     "K=%d depth=%d: %s" % (K, depth, det), None))
    okshape = hinds.ndim == 2 and hinds.shape[1] == K
    if okshape:
        for name, det in HI.check_links(hinds, hy.nm1, hy.np1, depth):
            viol.append(("links/%s/%s" % (name, tag),
                         "K=%d depth=%d: %s" % (K, depth, det), None))
        gam = [1.0 / b["cortime"] for b in case["bath"]]
        ref = HI.decay_factors(hinds, gam)
        got = numpy.asarray(hy.Gamma, dtype=float)
        scale = max(1e-300, float(numpy.max(numpy.abs(ref)))) if ref.size else 1.0
        if got.shape != ref.shape or not numpy.all(numpy.isfinite(got)) or \
                (ref.size and float(numpy.max(numpy.abs(got - ref))) > RTOL * max(scale, 1e-3)):
            i = int(numpy.argmax(numpy.abs(got - ref))) if got.shape == ref.shape else -1
            viol.append(("gamma/%s" % tag,
                         "K=%d depth=%d: Gamma[%d]=%r for n=%s, expected sum n_k/tau_k=%r"
                         % (K, depth, i, float(got[i]) if i >= 0 else None,
                            hinds[i].tolist() if i >= 0 else None,
                            float(ref[i]) if i >= 0 else None), None))
    out = [K, depth, int(hy.hsize), [int(x) for x in numpy.asarray(hy.levlengths).ravel()],
           int(numpy.sum(numpy.asarray(hy.np1) >= 0)), int(numpy.sum(numpy.asarray(hy.nm1) >= 0))]
    return {"nontrivial": K >= 2 and depth >= 2, "outcome": out, "violations": viol,
            "info": {"sec": "index"}}


# ----------------------------------------------------------------------------
# section dyn
# ----------------------------------------------------------------------------
def spanning_states(N):
    """N^2 valid density matrices spanning C^{N x N}; returns list of (label, rho)."""
    out = []
    for a in range(N):
        r = numpy.zeros((N, N), dtype=complex)
        r[a, a] = 1.0
        out.append(("p%d" % a, r))
    for a in range(N):
        for b in range(a + 1, N):
            for ph, lab in ((1.0, "r"), (1.0j, "i")):
                v = numpy.zeros(N, dtype=complex)
                v[a] = 1.0 / numpy.sqrt(2.0)
                v[b] = ph / numpy.sqrt(2.0)
                out.append(("%s%d%d" % (lab, a, b), numpy.outer(v, v.conj())))
    return out


def _groups(N):
    """Element masks: optical (one index is the ground state 0), inter-site, population."""
    opt = numpy.zeros((N, N), dtype=bool)
    inter = numpy.zeros((N, N), dtype=bool)
    pop = numpy.eye(N, dtype=bool)
    for a in range(N):
        for b in range(N):
            if a == b:
                continue
            if a == 0 or b == 0:
                opt[a, b] = True
            else:
                inter[a, b] = True
    return {"optical": opt, "intersite": inter, "population": pop}


TOLS = {"optical": TOL_OPTICAL, "intersite": TOL_INTERSITE, "population": TOL_POPULATION}


def _r(x, nd=3):
    x = float(x)
    if not numpy.isfinite(x):
        return "nan"
    if x == 0.0:
        return 0.0
    return float("%.*e" % (nd - 1, x))


def eval_dyn(case):
    qr = isolation.qr()
    en = case["energies"]
    n = len(en)
    N = n + 1
    J = case.get("J") or [[0.0] * n for _ in range(n)]
    coupled = any(J[i][j] != 0 for i in range(n) for j in range(n) if i != j)
    baths = _bath_list(case["bath"], n)
    lams = [float(b["reorg"]) for b in baths]
    all_zero = all(l == 0.0 for l in lams)
    ht = all(b.get("ftype", HT) == HT for b in baths)
    label, rho0 = spanning_states(N)[case["state"]]
    depths = list(case["depths"])
    sysname = "%dsite/%s" % (n, "coupled" if coupled else "uncoupled")
    viol, seen = [], set()

    def add(key, what, det=None):
        if key not in seen:
            seen.add(key)
            viol.append((key, what, det))

    groups = _groups(N)
    amp = {g: float(numpy.max(numpy.abs(rho0[m]))) if m.any() else 0.0
           for g, m in groups.items()}
    errs = {g: [] for g in groups}
    kappa = {g: 0.0 for g in groups}
    for a in range(N):
        for b in range(N):
            if a == b or abs(rho0[a, b]) == 0.0:
                continue
            inv = [baths[x - 1] for x in (a, b) if x > 0]
            kT = LS.kBT_int(inv[0]["T"])
            lsum = sum(LS.to_int(x["reorg"]) for x in inv)
            gmin = min(1.0 / float(x["cortime"]) for x in inv)
            g = "optical" if (a == 0 or b == 0) else "intersite"
            kappa[g] = max(kappa[g], float(numpy.sqrt(2.0 * kT * lsum) / gmin))
    admissible = {g: kappa[g] <= KAPPA_MAX for g in groups}
    worst = {"trace": 0.0, "herm": 0.0, "closed": 0.0, "closed_ratio": 0.0}
    digest = []
    analytic_applies = (not coupled) and (not all_zero) and ht
    analytic_skipped = None
    moved = 0.0

    for depth in depths:
        pr, hy, ta = _build(case, depth)
        ham = hy.ham
        rhoi = qr.ReducedDensityMatrix(data=rho0.copy())
        rt = pr.propagate(rhoi)
        d = numpy.array(rt.data)
        t = numpy.array(ta.data, dtype=float)
        if d.shape != (len(t), N, N):
            add("shape/%s" % sysname, "depth %d: result has shape %s, expected %s"
                % (depth, d.shape, (len(t), N, N)))
            continue
        if not numpy.all(numpy.isfinite(d)):
            add("finite/%s" % sysname, "depth %d state %s: non-finite values in the result"
                % (depth, label))
            continue
        moved = max(moved, float(numpy.max(numpy.abs(d - rho0[None, :, :]))))
        # ---- trace and Hermiticity at every stored time -----------------------
        tr = numpy.trace(d, axis1=1, axis2=2)
        e_tr = float(numpy.max(numpy.abs(tr - 1.0)))
        e_he = float(numpy.max(numpy.abs(d - numpy.conj(numpy.transpose(d, (0, 2, 1))))))
        sc = max(1.0, float(numpy.max(numpy.abs(d))))
        worst["trace"] = max(worst["trace"], e_tr)
        worst["herm"] = max(worst["herm"], e_he)
        if e_tr > RTOL * sc:
            k = int(numpy.argmax(numpy.abs(tr - 1.0)))
            add("trace/%s" % sysname,
                "depth %d state %s: |Tr rho - 1| = %.3g at stored time index %d"
                % (depth, label, e_tr, k), {"depth": depth, "time_index": k})
        if e_he > RTOL * sc:
            add("hermiticity/%s" % sysname,
                "depth %d state %s: max |rho - rho^+| = %.3g" % (depth, label, e_he),
                {"depth": depth})
        H = numpy.array(ham.data, dtype=complex)
        om = numpy.array(ham.rwa_energies, dtype=float)
        frame_ok = CR.commutes(H, om)
        # ---- zero coupling strength -> closed system --------------------------
        if all_zero and frame_ok:
            ref = CR.closed_evolution(H, om, rho0, t)
            bound = CR.taylor_bound(H, om, float(case["dt"]), len(t) - 1, TAYLOR_ORDER)
            dev = numpy.sqrt(numpy.sum(numpy.abs(d - ref) ** 2, axis=(1, 2)))
            tol = 2.0 * bound * float(numpy.linalg.norm(rho0)) + RTOL
            worst["closed"] = max(worst["closed"], float(numpy.max(dev)))
            worst["closed_ratio"] = max(worst["closed_ratio"], float(numpy.max(dev / tol)))
            if numpy.any(dev > tol):
                k = int(numpy.argmax(dev / tol))
                add("closed-system/%s/%s" % (sysname, "depth=0" if depth == 0 else "depth>0"),
                    "lambda=0, depth %d state %s: |rho - expm(-i(H-Om)t)rho0 expm(+)|_F = "
                    "%.3g at t index %d, Taylor-%d bound allows %.3g"
                    % (depth, label, float(dev[k]), k, TAYLOR_ORDER, float(tol[k])),
                    {"depth": depth, "time_index": k})
        # ---- uncoupled sites -> analytic pure dephasing -------------------------
        if analytic_applies and frame_ok:
            gs, guard_bad = [], None
            for k, b in enumerate(baths):
                lam, gam, kBT = LS.bath_params_int(b)
                gs.append(LS.g_ht(t, lam, gam, kBT))
                c_lib = numpy.array(hy.sbi.CC.get_correlation_function(k, k).data)
                c_ref = LS.corfce_ht(t, lam, gam, kBT)
                sc_c = max(float(numpy.max(numpy.abs(c_ref))), 1e-300)
                if c_lib.shape != c_ref.shape or \
                        float(numpy.max(numpy.abs(c_lib - c_ref))) > BATH_GUARD_RTOL * sc_c:
                    if lam != 0.0:
                        guard_bad = k
            if guard_bad is not None:
                add("analytic/bath-not-HT-form",
                    "bath %d: the attached correlation function is not lam(2kT-i/tau)"
                    "exp(-t/tau); the analytic g(t) of the hierarchy's bath does not "
                    "belong to it" % guard_bad)
                analytic_applies = False
                analytic_skipped = "bath-guard"
            else:
                ref = LS.pure_dephasing_solution(rho0, t, numpy.real(numpy.diag(H)) - om, gs,
                                                 [None] + list(range(n)))
                for g, m in groups.items():
                    errs[g].append(float(numpy.max(numpy.abs((d - ref)[:, m]))) if m.any() else 0.0)
        elif analytic_applies and not frame_ok:
            analytic_applies = False
            analytic_skipped = "rwa-reference-does-not-commute"

    if analytic_applies and all(len(errs[g]) == len(depths) for g in errs) and len(depths) >= 2:
        for g in ("optical", "intersite", "population"):
            e = errs[g]
            # "converges with increasing depth": never increasing ...
            for i in range(1, len(e)):
                if e[i] > e[i - 1] and e[i] > MONO_FLOOR:
                    add("analytic/%s/not-monotone" % g,
                        "state %s: error vs analytic solution grows from depth %d (%.3g) "
                        "to depth %d (%.3g)" % (label, depths[i - 1], e[i - 1], depths[i], e[i]),
                        {"errors": e, "depths": depths})
                    break
            # ... and small at the deepest level
            a = amp[g] if amp[g] > 0 else 1.0
            if admissible[g] and e[-1] > TOLS[g] * a + RTOL:
                add("analytic/%s/not-converged" % g,
                    "state %s: error at depth %d is %.3g (initial amplitude %.3g), "
                    "tolerance %.3g" % (label, depths[-1], e[-1], a, TOLS[g] * a),
                    {"errors": e, "depths": depths})
        digest = [[_r(x) for x in errs[g]] for g in ("optical", "intersite")]

    superpos = case["state"] >= N
    excited_pop = 1 <= case["state"] < N
    nontrivial = bool((superpos or (coupled and excited_pop)) and moved > 1e-6)
    info = {"sec": "dyn", "worst": worst, "errs": errs if analytic_applies else None,
            "amp": amp, "analytic": bool(analytic_applies), "skipped": analytic_skipped,
            "kappa": kappa, "admissible": admissible,
            "label": label, "lam": lams, "sys": sysname, "dmax": depths[-1]}
    outcome = [sysname, case["energies"], lams, case["via"], case.get("rwa", "blocks"),
               case["dt"], label, _r(moved, 4), digest]
    return {"nontrivial": nontrivial, "outcome": outcome, "violations": viol,
            "n": len(depths) - 1, "info": info}


def eval_case(case):
    if case["sec"] == "index":
        return eval_index(case)
    return eval_dyn(case)


def replay(case):
    return eval_case(case)["violations"]


# ----------------------------------------------------------------------------
# spaces
# ----------------------------------------------------------------------------
def _bath(reorg, cortime=50.0, T=300.0, ftype=HT):
    return {"ftype": ftype, "reorg": float(reorg), "cortime": float(cortime), "T": float(T)}


def _J(n, j):
    return systems.chain_J(n, float(j))


def index_cases(tier):
    if tier == "quick":
        Ks, Ds, ftypes = [1, 2, 3, 4], list(range(0, 6)), [HT]
    else:
        Ks, Ds, ftypes = [1, 2, 3, 4, 5], list(range(0, 8)), [HT, OB]
    pts = product({"ftype": ftypes, "via": ["direct", "agg"], "K": Ks, "depth": Ds},
                  # K=5 only up to depth 6 (cost of the library's O(hsize^2) neighbour search)
                  lambda c: not (c["K"] == 5 and c["depth"] > 6))
    out = [_index_case(p["K"], p["depth"], p["via"], p["ftype"]) for p in pts]
    # deep hierarchies with few baths (multi-indices with components >= 10)
    deep = {1: [11, 13], 2: [10, 11, 12], 3: [10, 11]} if tier == "quick" else \
        {1: [9, 11, 13, 21], 2: [9, 10, 11, 12, 14], 3: [9, 10, 11, 12]}
    for K, ds in deep.items():
        for dpt in ds:
            out.append(_index_case(K, dpt, "direct", HT))
    return out


def dyn_cases(tier):
    out = []

    def add(energies, J, bath, via, rwa, nt, dt, depths, e0=0.0):
        N = len(energies) + 1
        for s in range(N * N):
            out.append({"sec": "dyn", "energies": energies, "J": J, "bath": bath,
                        "via": via, "rwa": rwa, "nt": nt, "dt": dt, "state": s,
                        "depths": depths, "e0": e0})

    mixed2 = [_bath(30, 50), _bath(20, 40)]
    if tier == "quick":
        D = list(range(0, 6))
        nt, dt = 150, 1.0
        systems_ = [([E0], None)]
        for J in (0.0, 100.0):
            for gap in (0.0, 200.0):
                systems_.append(([E0, E0 + gap], _J(2, J)))
        for en, J in systems_:
            for lam in (0.0, 30.0):
                add(en, J, _bath(lam), "agg", "blocks", nt, dt, D)
        # direct construction, different bath per site
        for J in (0.0, 100.0):
            add([E0, E0 + 200.0], _J(2, J), mixed2, "direct", "blocks", nt, dt, D)
        # a ground state that does not sit at zero energy (the lowest rotating-wave block has
        # its own reference frequency)
        add([E0 + 300.0], None, _bath(0.0), "direct", "blocks", nt, dt, [0, 2], e0=300.0)
        add([E0 + 300.0], None, _bath(30.0), "direct", "blocks", nt, dt, D, e0=300.0)
        add([E0 + 300.0, E0 + 500.0], _J(2, 0.0), _bath(30.0), "agg", "blocks", nt, dt, [0, 2, 4],
            e0=300.0)
        return out
    # ------------------------------ thorough ------------------------------------
    D = list(range(0, 7))
    baths1 = [_bath(0), _bath(30), _bath(60), _bath(30, 30), _bath(30, 50, 77)]
    # monomer
    for b in baths1:
        for via in ("agg", "direct"):
            for nt, dt in ((200, 1.0), (100, 2.0)):
                add([E0], None, b, via, "blocks", nt, dt, D)
    # dimers
    for J in (0.0, 100.0):
        for gap in (0.0, 200.0):
            en = [E0, E0 + gap]
            for b in baths1 + [mixed2]:
                for via, nt, dt in (("agg", 200, 1.0), ("direct", 200, 1.0), ("agg", 100, 2.0)):
                    add(en, _J(2, J), b, via, "blocks", nt, dt, D)
            # the full overdamped-Brownian type (hierarchy uses its high-T limit): only
            # trace / Hermiticity clauses apply
            add(en, _J(2, J), _bath(30, 50, 300, OB), "agg", "blocks", 200, 1.0, D)
            if J == 0.0:
                # every state its own rotating-wave reference (commutes with H only for J=0)
                for b in (_bath(0), _bath(30), mixed2):
                    add(en, _J(2, J), b, "direct", "per-site", 200, 1.0, D)
    for via in ("agg", "direct"):
        for b in (_bath(0), _bath(30)):
            add([E0 + 300.0], None, b, via, "blocks", 200, 1.0, D, e0=300.0)
            add([E0 - 150.0, E0 + 50.0], _J(2, 0.0), b, via, "blocks", 200, 1.0, D, e0=-150.0)
            add([E0 + 300.0, E0 + 500.0], _J(2, 100.0), b, via, "blocks", 200, 1.0, D, e0=300.0)
    # trimers
    mixed3 = [_bath(30, 50), _bath(20, 40), _bath(40, 60)]
    for J in (0.0, 100.0):
        en = [E0, E0 + 200.0, E0 - 100.0]
        for b in (_bath(0), _bath(30), mixed3):
            for via in ("agg", "direct"):
                add(en, _J(3, J), b, via, "blocks", 200, 1.0, D)
    return out


def cases(tier):
    return index_cases(tier) + dyn_cases(tier)


# ----------------------------------------------------------------------------
def run(run):
    run.rule = ("index: full product (bath type x construction path x K baths x depth), "
                "non-trivial = K>=2 and depth>=2; dyn: full product (system x bath x path x "
                "RWA reference x time step) x every member of the N^2 spanning set of valid "
                "initial states x every depth 0..Dmax (a fresh hierarchy+propagator per "
                "propagation); non-trivial = initial state is a superposition, or an excited "
                "site population of a coupled system, AND the propagated state moved by more "
                "than 1e-6 from the initial one")
    run.assumptions = [
        "reference models: mc/refmodels/hierarchy_index.py (compositions, neighbour tables), "
        "lineshape.py (g(t) of the high-temperature overdamped Brownian oscillator), "
        "closed_rwa.py (expm in the rotating frame + Taylor-%d truncation bound)" % TAYLOR_ORDER,
        "H and the rotating-wave reference are read from the Hamiltonian object handed to the "
        "hierarchy (they are its inputs); bath parameters come from the case specification",
        "analytic clause only for the correlation-function type whose g(t) the hierarchy "
        "represents exactly (OverdampedBrownian-HighTemperature); a guard compares the attached "
        "C(t) samples with lam(2kT - i/tau)exp(-t/tau) (1e-5 relative: unit constants)",
        "monotone convergence is demanded only above %.0e (rounding floor)" % MONO_FLOOR,
        "every propagation runs on a freshly built hierarchy (isolation from C15); units are "
        "reset after Aggregate.build (isolation from C05)"]
    q = run.tier == "quick"
    run.bounds = {
        "index": {"baths": "1..4" if q else "1..5", "depth": "0..5" if q else "0..7 (K=5: 0..6)",
                  "paths": ["direct", "agg"], "ftypes": [HT] if q else [HT, OB]},
        "dyn": {"depths": "0..5" if q else "0..6",
                "systems": "monomer; dimers gap {0,200} x J {0,100}" +
                           ("" if q else "; trimers gaps (0,200,-100) x J {0,100}"),
                "baths(reorg,cortime,T)": "0; (30,50,300); mixed per-site" if q else
                "0; (30,50,300); (60,50,300); (30,30,300); (30,50,77); mixed per-site; "
                "full OB type (trace/Hermiticity only)",
                "time": "150 x 1 fs" if q else "200 x 1 fs, 100 x 2 fs",
                "initial states": "all N^2 members of the spanning set"},
        "tolerances": {"R": RTOL, "T": "2 x Taylor-%d bound + R" % TAYLOR_ORDER,
                       "Q_optical": TOL_OPTICAL, "Q_intersite": TOL_INTERSITE,
                       "Q_population": TOL_POPULATION, "Q_admissible_kappa_max": KAPPA_MAX}}
    ic = index_cases(run.tier)
    dc = dyn_cases(run.tier)
    run_grid(run, ic, eval_case, section="index")
    # heaviest cases (most sites) first inside the pool for load balance; the evaluated
    # SET is the complete product either way
    dc = rotate(dc, run.seed)
    order = sorted(range(len(dc)), key=lambda i: -len(dc[i]["energies"]))
    infos = run_grid(run, [dc[i] for i in order], eval_case, section="dyn", chunksize=1)
    w = {"trace": 0.0, "herm": 0.0, "closed": 0.0, "closed_ratio": 0.0}
    wa = {"optical": 0.0, "intersite": 0.0, "population": 0.0}
    wa_inadm = {"optical": 0.0, "intersite": 0.0}
    n_inadm = 0
    by_dmax = {}
    nan, nskip = 0, {}
    for inf in infos:
        if inf.get("sec") != "dyn":
            continue
        for k in w:
            w[k] = max(w[k], inf["worst"][k])
        if inf["analytic"] and inf["errs"]:
            nan += 1
            for g in wa:
                a = inf["amp"][g] if inf["amp"][g] > 0 else 1.0
                if inf["admissible"][g]:
                    wa[g] = max(wa[g], inf["errs"][g][-1] / a)
                    if inf["amp"][g] > 0:
                        k = "%s@Dmax=%d" % (g, inf["dmax"])
                        by_dmax[k] = max(by_dmax.get(k, 0.0), inf["errs"][g][-1] / a)
                else:
                    wa_inadm[g] = max(wa_inadm[g], inf["errs"][g][-1] / a)
                    n_inadm += 1
        if inf.get("skipped"):
            nskip[inf["skipped"]] = nskip.get(inf["skipped"], 0) + 1
    run.note(worst_deviation={"trace": w["trace"], "hermiticity": w["herm"],
                              "closed_system_abs": w["closed"],
                              "closed_system_fraction_of_bound": w["closed_ratio"],
                              "analytic_rel_error_at_Dmax": wa,
                              "analytic_rel_error_at_Dmax_by_group": by_dmax,
                              "analytic_rel_error_at_Dmax_inadmissible_kappa": wa_inadm},
             analytic_cases=nan, analytic_skipped=nskip,
             analytic_final_level_not_applied_kappa_gt_max=n_inadm)
