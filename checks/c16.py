"""C16 Hierarchical equations: complete index set, consistent links, valid states.

E-grid, two sections.

index   every (number of baths K, depth D) of the bound, for two construction paths
        (KTHierarchy(ham, sbi, D) directly / Aggregate.get_KTHierarchy(D)) and both
        admissible correlation-function types.  No propagation.  Oracles
        (mc/refmodels/hierarchy_index.py, class R / exact integers):
          index-set/*   hinds == compositions level by level, no duplicate, hsize =
                        C(D+K,K), levels / levlengths
          links/*       nm1 / np1: present exactly inside, absent exactly at the
                        boundaries, targets n -/+ e_k, mutually inverse
          gamma/*       Gamma_n = sum_k n_k / tau_k (decay factor of the ADO; needed
                        for the convergence clause, listed in DESIGN 3/C16)

dyn     every (system, bath, construction path, RWA reference, time step) x EVERY
        member of a spanning set of valid initial density matrices (linearity
        closure: the map rho(0) -> rho(t) of a freshly built hierarchy is linear, the
        N^2 states |a><a|, (|a>+|b>)(..)/2, (|a>+i|b>)(..)/2 span all N x N matrices)
        x every depth 0..Dmax.  A FRESH hierarchy + propagator is built for every
        single propagation (isolation from C15).  Oracles:
          trace/*, hermiticity/*   at every stored time (R)
          closed-system/*          all lambda = 0: equals expm(-i(H-Om)t) rho0 expm(+..)
                                   in the same rotating frame (T: computed Taylor bound)
          analytic/*               all J = 0, lambda > 0, high-temperature bath type:
                                   error vs exp(-i(w-Om)t - g(t)) (optical), vs
                                   exp(-i w_kl t - g_k - g_l^*) (inter-site), constant
                                   populations; must not increase with depth and must be
                                   <= TOL at Dmax (Q, calibrated, admissible points
                                   kappa <= KAPPA_MAX only, see TOL_* below)
        Hamiltonian class (construction path "direct"): {real, complex Hermitian}.  The
        resonance couplings carry a phase exp(+-i phi) along the oriented bonds 0->1->..
        ->n-1->0 ("jphase", degrees); on a ring of three sites the total flux 3 phi is
        not removable by a change of the site phases.  Clauses with a reference:
        closed-system/* (expm of the complex H), trace/*, hermiticity/*.

        DEEP / FAST sub-product ("deep": 1): the resolution number of the time axis
          nu = dt * Dmax-level decay = dt * D * max_k(1/tau_k)
        (time step x decay rate of the fastest auxiliary operator) runs over (0, NU_MAX] and
        CROSSES 1: fast baths (tau 10..30 fs) x time steps {1, 2(, 3)} fs x depth alphabets
        up to 16 (20), filtered by nu <= NU_MAX (stability interval of the declared Taylor-4
        step on the negative real axis is 2.785; beyond it the explicit integrator diverges on
        the unchanged tree - a discretisation limit, not claimed).  Same oracles: analytic/*
        (monomers, uncoupled dimers; the result has to converge AND STAY converged when the
        depth grows), closed-system/* (coupled dimer / trimer with lambda = 0: exact at every
        depth), trace/*, hermiticity/*.  In these sequences the truncation error falls below
        the time-discretisation error of the integrator (<= 8.1e-8 dt^4, independent of the
        depth), so "never increasing" is demanded above DEEP_FLOOR_C * dt^4 instead of the
        rounding floor.

hist    REQUEST HISTORIES on ONE open-system object through the builder accessors:
        every ordered pair and triple of depths of the depth alphabet x every accessor
        word over {h: get_KTHierarchy(d), p: get_KTHierarchyPropagator(d)} x system
        (Molecule, Aggregate with 1..K baths).  Every returned object is checked
        against the REQUESTED depth with the index-set / links / gamma oracles of
        section index; on the propagation sub-product every returned object also
        propagates EVERY member of the spanning set of initial states and the result is
        compared (R) with a hierarchy of the requested depth constructed directly
        (KTHierarchy(ham, sbi, d) on an independently built Hamiltonian + system-bath
        interaction), plus trace/Hermiticity.  After the last request the objects
        returned earlier are checked once more (a later request must not change them).
          history/index-set/*, history/links/*, history/gamma/*
          history/propagation/*       differs from the directly constructed hierarchy
          history/trace/*, history/hermiticity/*
          history/earlier-object-changed/*

ctx     UNITS CONTEXT OF EVERY CONSTRUCTION STEP.  The objects of one propagation are
        created in separate steps; each step is performed outside any units context or
        inside `with energy_units(u)`: (hierarchy built, propagator built) in
        {outside, inside u}^2 minus (outside, outside) x construction path {direct:
        KTHierarchy(..) + KTHierarchyPropagator(..); agg-h: get_KTHierarchy(d) +
        KTHierarchyPropagator(..); agg: get_KTHierarchyPropagator(d), one call, both
        steps in the same context} x system x every spanning state x depths.
        propagate() is always called outside a context (calling it inside one is not
        sound on the unchanged tree and not claimed, see run.assumptions).  All oracles
        of section dyn apply (the physical dynamics do not depend on the units that were
        current when an OBJECT was created) plus class R equality with the same
        construction performed outside any context.  Keys carry the prefix
          units-context/{hierarchy,propagator,both}-built-inside/...
          units-context/hierarchy-built-inside/reorganisation-energy-in-context-units
                        (root cause seen on the hierarchy object; dynamics skipped)

starts  TIME AXES THAT DO NOT START AT ZERO.  TimeAxis(t0, nt, dt) with t0 over the
        alphabet AXIS_STARTS (negative, positive, not a multiple of the step, far from
        zero) x (system x construction path x time step) x every spanning state x depths.
        The initial state belongs to the FIRST point of the axis, so every reference is a
        function of the elapsed time t - t0: all oracles of section dyn apply
        (closed-system/*, analytic/*, trace/*, hermiticity/*) plus class R equality with the
        same system, path, depth and state on the axis TimeAxis(0, nt, dt) (the hierarchy
        equations are autonomous).  For the one-call accessor the axis is the one the bath
        correlation functions were defined on.  Keys carry the prefix
          axis-start/...   and   axis-start/differs-from-axis-starting-at-zero/<system>

coupling  SYSTEM-BATH COUPLING OPERATORS OTHER THAN "bath k = projector on site k".
        KTHierarchy takes its V_k from SystemBathInteraction.KK, i.e. ANY list of real
        symmetric operators with one correlation function each; the number of baths is
        independent of the number of sites.  Alphabet (coupling_alphabet): baths listed in
        reverse / cyclic site order, baths on a subset of the sites, two baths on one site,
        scaled and negated projectors, one bath shared by two sites, an anticorrelated
        bath, a bath on the ground state, the energy-gap operator, the unit operator, the
        site-exchange operator (not diagonal) x {uncoupled, coupled sites} x {given
        coupling strength, zero} x every spanning state x depths, direct construction.
        Oracles: trace/*, hermiticity/* always; closed-system/* for zero strength; the
        index-set / links / gamma oracles for the NUMBER OF BATHS (!= number of sites);
        analytic/* whenever the model is exactly solvable, i.e. H and all V_k commute
        (uncoupled sites with diagonal V_k; coupled sites under a shared bath or the unit
        operator): in the joint eigenbasis
          rho_ab(t) = rho_ab(0) exp(-i w_ab t - sum_k [(c_ka-c_kb)^2 Re g_k(t)
                                                       + i (c_ka^2-c_kb^2) Im g_k(t)])
        (mc/refmodels/commuting_dephasing.py; for site projectors this IS exp(-iwt-g(t)) /
        exp(-iwt-g_k-g_l^*)), same class Q numbers and admissibility rule as section dyn with
        kappa = sqrt(2 kT sum_k lam_k (c_ka-c_kb)^2) / min gamma_k.  Keys:
          coupling/<class>/...

steps   THE PROPAGATOR'S OWN TIME AXIS IS NOT THE AXIS OF THE BATH.  KTHierarchyPropagator(
        timeaxis, hierarchy) takes ITS time axis as an argument; the bath correlation functions
        (SystemBathInteraction.TimeAxis) may have been defined on another one - a time-step
        convergence study, a bath tabulated once and reused.  Step ratio r = (step of the
        propagation axis) / (step of the bath axis) over the alphabet STEP_RATIOS (1 = a
        separately built axis of the same step; finer and coarser; thorough: also a
        non-integer ratio) x (system x construction path {direct, agg-h} x propagation axis) x
        every spanning state x depths.  The bath axis TimeAxis(0, ~1.2 span / bath step, bath
        step) also differs in LENGTH from the propagation axis for every ratio (1 included).
        The stored evolution belongs to the PROPAGATOR's times: all oracles of section dyn are
        evaluated there (closed-system/*, analytic/*, trace/*, hermiticity/*; the propagation
        axes are the calibrated ones of section dyn, only the bath axis varies) plus class R
        equality with the same system whose bath was defined on the propagation axis itself
        (the hierarchy is built from the bath PARAMETERS, heom.py:KTHierarchy.__init__).  Keys
        carry the prefix
          time-step/...   and   time-step/differs-from-bath-defined-on-the-propagation-axis/<system>

calls   PROPAGATION-CALL HISTORIES ON ONE PROPAGATOR OBJECT.  A call is (option, initial
        state); options = {o: propagate(rho), f: propagate(rho, free_hierarchy=True),
        r: propagate(rho, report_hierarchy=True)} (thorough: also both flags).  Product
        P1: every history of length 1..2 over options x the N^2 spanning states; product
        P2: every option word of length 2..Lmax, earlier calls on one generic state (all
        matrix elements non-zero), last call on every spanning state.  EVERY call that
        returns a propagated density matrix (all but the free_hierarchy ones, whose
        return value is not part of the property) must reproduce the result of a FRESH
        propagator on a fresh hierarchy (R), keep trace / Hermiticity, satisfy the
        closed-system bound (lambda = 0) and the final-level analytic dephasing tolerance
        (uncoupled sites, depth 5).
          calls/differs-from-fresh-propagator/<option>-after-<options used before>/*
          calls/closed-system/*, calls/analytic/*, calls/trace/*, calls/hermiticity/*
        RESULTS HELD BY THE CALLER: every evolution returned by a checked call is kept (the
        object, not a copy) and read again after EVERY later call of the history (any
        option, any state): it must still hold exactly the data it held when it was
        returned - the dynamics of ITS initial state.
          calls/earlier-result-changed-by-later-call/<earlier option>-then-<later option>/*
"""
import contextlib

import numpy

from mc import isolation, systems
from mc.explore import run_grid, product, rotate
from mc.refmodels import hierarchy_index as HI
from mc.refmodels import lineshape as LS
from mc.refmodels import closed_rwa as CR
from mc.refmodels import commuting_dephasing as CD

LEVEL = "model_checking"

RTOL = 1e-10            # class R
TAYLOR_ORDER = 4        # declared default of KTHierarchyPropagator.propagate(L=4)
MONO_FLOOR = 1e-9       # below this the error sequence is rounding noise
# class Q: error at the deepest level, relative to the largest initial element of the group.
# The truncation error of a depth-D hierarchy is governed by the dimensionless coupling
#   kappa = sqrt(2 kB T * (sum of reorganisation energies of the baths acting on the
#           element)) / (smallest bath relaxation rate involved)
# (fluctuation amplitude over relaxation rate).  The "small at the deepest level" number is
# only applied to ADMISSIBLE points kappa <= KAPPA_MAX (DESIGN 1.5); for larger kappa only
# the monotone decrease is demanded (counted in the evidence).  Calibration on the unchanged
# tree: optical worst 2.8e-4 (quick, Dmax 5, kappa 1.05) / 9.2e-4 (thorough, Dmax 6, kappa
# 1.49); inter-site worst 3.2e-3 (quick, Dmax 5, kappa 1.49) / 7.4e-4 (thorough, Dmax 6);
# inadmissible points (kappa 1.9-2.1, Dmax 6) reach 5.1e-3.  Smallest effects among the
# mutants tried: 5e-2 (optical), 9e-2 (inter-site).
KAPPA_MAX = 1.5
TOL_OPTICAL = 5e-3
TOL_INTERSITE = 1.75e-2
TOL_POPULATION = 5e-3
# deep / fast sub-product: resolution number nu = dt * D * max(1/tau) of the alphabet and the
# class Q floor of the monotone clause there (time-discretisation error of the Taylor-4 step;
# calibration on the unchanged tree: the largest error that exceeded its predecessor in a
# depth sequence is 8.1e-8 * dt^4 (thorough; 0 in the quick alphabet), see evidence "deep";
# smallest effect of a change that mis-steps time once nu > 1: 5e-2)
NU_MAX = 2.5
DEEP_FLOOR_C = 5.0e-7
BATH_GUARD_RTOL = 1e-5  # library uses CODATA-2014 constants: 1e-6 relative allowed

HT = "OverdampedBrownian-HighTemperature"
OB = "OverdampedBrownian"

E0 = 10000.0


# ----------------------------------------------------------------------------
# builders
# ----------------------------------------------------------------------------
def _bath_list(bath, nsites):
    if isinstance(bath, list):
        return [dict(b) for b in bath]
    return [dict(bath) for _ in range(nsites)]


def complex_h_cm(energies, J, e0, jphase_deg):
    """Hermitian matrix (1/cm) with ground state e0 and couplings J[i][j] exp(+i phi) along
    the oriented bonds i -> i+1 (mod n), exp(-i phi) against them, real for the others."""
    n = len(energies)
    phi = numpy.pi * float(jphase_deg) / 180.0
    h = numpy.zeros((n + 1, n + 1), dtype=complex)
    h[0, 0] = e0
    for i in range(n):
        h[i + 1, i + 1] = energies[i]
        for j in range(n):
            if i == j or J[i][j] == 0:
                continue
            if (j - i) % n == 1:
                ph = numpy.exp(1j * phi)
            elif (i - j) % n == 1:
                ph = numpy.exp(-1j * phi)
            else:
                ph = 1.0
            h[i + 1, j + 1] = float(J[i][j]) * ph
    if n == 2:
        # both orientations coincide for two sites: 0 -> 1 carries +phi
        h[1, 2] = float(J[0][1]) * numpy.exp(1j * phi)
        h[2, 1] = numpy.conj(h[1, 2])
    return h


def _complex_hamiltonian(energies, J, e0, jphase_deg):
    qr = isolation.qr()
    h = complex_h_cm(energies, J, e0, jphase_deg)
    if float(numpy.max(numpy.abs(h - h.conj().T))) != 0.0 or \
            float(numpy.max(numpy.abs(h.imag))) == 0.0:
        raise isolation.HarnessError("complex Hamiltonian spec is not complex Hermitian")
    with qr.energy_units("1/cm"):
        ham = qr.Hamiltonian(data=h)
    isolation.reset_units()
    got = numpy.array(ham.data)
    want = h * LS.to_int(1.0)
    if got.shape != want.shape or not numpy.iscomplexobj(got) or \
            float(numpy.max(numpy.abs(got - want))) > 1e-12 * float(numpy.max(numpy.abs(want))):
        raise isolation.HarnessError("Hamiltonian(data=complex Hermitian) does not hold the "
                                     "matrix it was given; the complex class cannot be set up")
    return ham


def _units(unit):
    """energy_units(unit) context, or no context at all for unit None."""
    return isolation.qr().energy_units(unit) if unit else contextlib.nullcontext()


def _uctx_site(uctx):
    h, p = bool(uctx.get("h")), bool(uctx.get("p"))
    return {(True, False): "hierarchy-built-inside", (False, True): "propagator-built-inside",
            (True, True): "both-built-inside"}[(h, p)]


def _ham_sbi_general(energies, J, baths, ta, e0=0.0):
    """Hamiltonian + SystemBathInteraction whose k-th system operator is the real symmetric
    matrix baths[k]["op"] (any number of baths, any operators) -> (ham, sbi)."""
    qr = isolation.qr()
    from quantarhei.qm.corfunctions import CorrelationFunctionMatrix
    from quantarhei.qm import SystemBathInteraction, Operator
    n = len(energies)
    dim = n + 1
    h = numpy.zeros((dim, dim))
    h[0, 0] = e0
    for i in range(n):
        h[i + 1, i + 1] = energies[i]
        for j in range(n):
            if i != j:
                h[i + 1, j + 1] = J[i][j]
    with qr.energy_units("1/cm"):
        ham = qr.Hamiltonian(data=h)
    K = len(baths)
    cfm = CorrelationFunctionMatrix(ta, K, K)
    ops = []
    for k, b in enumerate(baths):
        op = numpy.array(b["op"], dtype=float)
        if op.shape != (dim, dim) or float(numpy.max(numpy.abs(op - op.T))) != 0.0:
            raise isolation.HarnessError("coupling operator %d is not a real symmetric "
                                         "%d x %d matrix" % (k, dim, dim))
        cfm.set_correlation_function(systems.corfce(ta, b), [(k, k)], k + 1)
        ops.append(Operator(data=op))
    sbi = SystemBathInteraction(ops, cfm)
    return ham, sbi


def _build(case, depth):
    """Fresh time axis, system, hierarchy and propagator -> (propagator, ham, ta)."""
    qr = isolation.qr()
    from quantarhei import KTHierarchy, KTHierarchyPropagator
    en = [float(e) for e in case["energies"]]
    n = len(en)
    J = case.get("J") or [[0.0] * n for _ in range(n)]
    ta = systems.time_axis(int(case["nt"]), float(case["dt"]), float(case.get("t0", 0.0)))
    # tb: the axis the bath correlation functions are defined on; the propagator gets `ta`
    tb = ta
    if case.get("bath_axis"):
        if case["via"] not in ("direct", "agg-h"):
            raise isolation.HarnessError("a propagation axis of its own needs the propagator "
                                         "constructed separately (direct, agg-h)")
        tb = systems.time_axis(int(case["bath_axis"]["nt"]), float(case["bath_axis"]["dt"]))
        if tb is ta:
            raise isolation.HarnessError("bath axis and propagation axis are one object")
    baths = _bath_list(case["bath"], n)
    uctx = case.get("uctx") or {}
    if case.get("coupling") and case["via"] != "direct":
        raise isolation.HarnessError("general coupling operators: direct construction only")
    uh, up = uctx.get("h"), uctx.get("p")
    if case["via"] in ("agg", "agg-h"):
        agg = systems.aggregate(en, J=J, bath=baths, ta=tb, e0=float(case.get("e0", 0.0)))
        isolation.reset_units()
        if case.get("sec") == "index":
            hy = agg.get_KTHierarchy(depth)
            pr = None
        elif case["via"] == "agg-h":
            with _units(uh):
                hy = agg.get_KTHierarchy(depth)
            isolation.reset_units()
            with _units(up):
                pr = KTHierarchyPropagator(ta, hy)
        else:
            if uh != up:
                raise isolation.HarnessError("get_KTHierarchyPropagator is one call: both "
                                             "construction steps share the units context")
            with _units(up):
                pr = agg.get_KTHierarchyPropagator(depth)
            hy = pr.hy
    else:
        if case.get("coupling"):
            ham, sbi = _ham_sbi_general(en, J, baths, tb, e0=float(case.get("e0", 0.0)))
        else:
            ham, sbi = systems.ham_sbi(en, J, baths, tb, e0=float(case.get("e0", 0.0)))
        isolation.reset_units()
        if case.get("jphase"):
            ham = _complex_hamiltonian(en, J, float(case.get("e0", 0.0)), case["jphase"])
        if case.get("rwa", "blocks") == "per-site":
            ham.set_rwa(list(range(n + 1)))
        else:
            ham.set_rwa([0, 1])
        with _units(uh):
            hy = KTHierarchy(ham, sbi, depth)
        isolation.reset_units()
        pr = None
        if case.get("sec") != "index":
            with _units(up):
                pr = KTHierarchyPropagator(ta, hy)
    isolation.reset_units()
    return pr, hy, ta


# ----------------------------------------------------------------------------
# section index
# ----------------------------------------------------------------------------
def _index_case(K, depth, via, ftype):
    baths = [{"ftype": ftype, "reorg": 20.0 + 10.0 * k, "cortime": 40.0 + 15.0 * k,
              "T": 300.0} for k in range(K)]
    return {"sec": "index", "K": K, "depth": depth, "via": via,
            "energies": [E0 + 100.0 * k for k in range(K)], "J": None,
            "bath": baths, "nt": 20, "dt": 1.0}


def eval_index(case):
    K, depth = case["K"], case["depth"]
    _, hy, _ = _build(case, depth)
    viol = []
    tag = "K=%d" % K
    hinds = numpy.array(hy.hinds)
    if hy.nbath != K:
        viol.append(("index-set/nbath", "hierarchy has %s baths, system has %d"
                     % (hy.nbath, K), None))
        return {"nontrivial": True, "outcome": "nbath", "violations": viol}
    for name, det in HI.check_index_set(hinds, hy.levels, hy.levlengths, hy.hsize, K, depth):
        viol.append(("index-set/%s/%s" % (name, tag),
                     "K=%d depth=%d: %s" % (K, depth, det), None))
    okshape = hinds.ndim == 2 and hinds.shape[1] == K
    if okshape:
        for name, det in HI.check_links(hinds, hy.nm1, hy.np1, depth):
            viol.append(("links/%s/%s" % (name, tag),
                         "K=%d depth=%d: %s" % (K, depth, det), None))
        gam = [1.0 / b["cortime"] for b in case["bath"]]
        ref = HI.decay_factors(hinds, gam)
        got = numpy.asarray(hy.Gamma, dtype=float)
        scale = max(1e-300, float(numpy.max(numpy.abs(ref)))) if ref.size else 1.0
        if got.shape != ref.shape or not numpy.all(numpy.isfinite(got)) or \
                (ref.size and float(numpy.max(numpy.abs(got - ref))) > RTOL * max(scale, 1e-3)):
            i = int(numpy.argmax(numpy.abs(got - ref))) if got.shape == ref.shape else -1
            viol.append(("gamma/%s" % tag,
                         "K=%d depth=%d: Gamma[%d]=%r for n=%s, expected sum n_k/tau_k=%r"
                         % (K, depth, i, float(got[i]) if i >= 0 else None,
                            hinds[i].tolist() if i >= 0 else None,
                            float(ref[i]) if i >= 0 else None), None))
    out = [K, depth, int(hy.hsize), [int(x) for x in numpy.asarray(hy.levlengths).ravel()],
           int(numpy.sum(numpy.asarray(hy.np1) >= 0)), int(numpy.sum(numpy.asarray(hy.nm1) >= 0))]
    return {"nontrivial": K >= 2 and depth >= 2, "outcome": out, "violations": viol,
            "info": {"sec": "index"}}


# ----------------------------------------------------------------------------
# section dyn
# ----------------------------------------------------------------------------
def spanning_states(N):
    """N^2 valid density matrices spanning C^{N x N}; returns list of (label, rho)."""
    out = []
    for a in range(N):
        r = numpy.zeros((N, N), dtype=complex)
        r[a, a] = 1.0
        out.append(("p%d" % a, r))
    for a in range(N):
        for b in range(a + 1, N):
            for ph, lab in ((1.0, "r"), (1.0j, "i")):
                v = numpy.zeros(N, dtype=complex)
                v[a] = 1.0 / numpy.sqrt(2.0)
                v[b] = ph / numpy.sqrt(2.0)
                out.append(("%s%d%d" % (lab, a, b), numpy.outer(v, v.conj())))
    return out


def _groups(N):
    """Element masks: optical (one index is the ground state 0), inter-site, population."""
    opt = numpy.zeros((N, N), dtype=bool)
    inter = numpy.zeros((N, N), dtype=bool)
    pop = numpy.eye(N, dtype=bool)
    for a in range(N):
        for b in range(N):
            if a == b:
                continue
            if a == 0 or b == 0:
                opt[a, b] = True
            else:
                inter[a, b] = True
    return {"optical": opt, "intersite": inter, "population": pop}


TOLS = {"optical": TOL_OPTICAL, "intersite": TOL_INTERSITE, "population": TOL_POPULATION}


def _r(x, nd=3):
    x = float(x)
    if not numpy.isfinite(x):
        return "nan"
    if x == 0.0:
        return 0.0
    return float("%.*e" % (nd - 1, x))


def _op_str(v):
    """Readable form of a small real symmetric operator."""
    v = numpy.asarray(v, dtype=float)
    terms = []
    for a in range(v.shape[0]):
        for b in range(a, v.shape[1]):
            if v[a, b] != 0.0:
                ket = "|%d><%d|" % (a, b) if a == b else "(|%d><%d|+h.c.)" % (a, b)
                terms.append(("%g" % v[a, b] if v[a, b] != 1.0 else "") + ket)
    return " + ".join(terms).replace("+ -", "- ") if terms else "0"


_T0_REF = {}


def _zero_start_reference(case, depth):
    """The same system, construction path, depth and initial state on TimeAxis(0, nt, dt).
    Deterministic; memoised per worker process."""
    key = repr((case["energies"], case.get("J"), case["bath"], case["via"], case["rwa"],
                case["nt"], case["dt"], case.get("e0", 0.0), case.get("jphase", 0), depth,
                case["state"]))
    if key not in _T0_REF:
        if len(_T0_REF) > 64:
            _T0_REF.clear()
        qr = isolation.qr()
        c0 = dict(case)
        c0.pop("t0", None)
        pr0, _, ta0 = _build(c0, depth)
        if float(ta0.data[0]) != 0.0:
            raise isolation.HarnessError("reference axis does not start at zero")
        rho0 = spanning_states(len(case["energies"]) + 1)[case["state"]][1]
        _T0_REF[key] = numpy.array(
            pr0.propagate(qr.ReducedDensityMatrix(data=rho0.copy())).data)
    return _T0_REF[key]


_SAME_AXIS_REF = {}


def _same_axis_reference(case, depth):
    """The same system, construction path, depth and initial state with the bath correlation
    functions defined on the propagation axis itself.  Deterministic; memoised per worker
    process (the reference does not depend on the bath axis of the case)."""
    key = repr((case["energies"], case.get("J"), case["bath"], case["via"], case["rwa"],
                case["nt"], case["dt"], case.get("e0", 0.0), case.get("jphase", 0), depth,
                case["state"]))
    if key not in _SAME_AXIS_REF:
        if len(_SAME_AXIS_REF) > 64:
            _SAME_AXIS_REF.clear()
        qr = isolation.qr()
        c0 = dict(case)
        c0.pop("bath_axis", None)
        pr0, hy0, ta0 = _build(c0, depth)
        if hy0.sbi.TimeAxis is not ta0:
            raise isolation.HarnessError("reference: the bath is not on the propagation axis")
        rho0 = spanning_states(len(case["energies"]) + 1)[case["state"]][1]
        _SAME_AXIS_REF[key] = numpy.array(
            pr0.propagate(qr.ReducedDensityMatrix(data=rho0.copy())).data)
    return _SAME_AXIS_REF[key]


def eval_dyn(case):
    qr = isolation.qr()
    en = case["energies"]
    n = len(en)
    N = n + 1
    J = case.get("J") or [[0.0] * n for _ in range(n)]
    coupled = any(J[i][j] != 0 for i in range(n) for j in range(n) if i != j)
    baths = _bath_list(case["bath"], n)
    lams = [float(b["reorg"]) for b in baths]
    all_zero = all(l == 0.0 for l in lams)
    ht = all(b.get("ftype", HT) == HT for b in baths)
    label, rho0 = spanning_states(N)[case["state"]]
    depths = list(case["depths"])
    sysname = "%dsite/%s" % (n, "coupled" if coupled else "uncoupled")
    if case.get("jphase"):
        sysname += "/complexH"
    viol, seen = [], set()
    uctx = case.get("uctx") or None
    t0 = float(case.get("t0", 0.0))
    coupling = case.get("coupling") or None
    baxis = case.get("bath_axis") or None
    if (1 if uctx else 0) + (1 if t0 != 0.0 else 0) + (1 if coupling else 0) \
            + (1 if baxis else 0) > 1:
        raise isolation.HarnessError("units context / axis start / coupling operators / bath "
                                     "axis are separate sub-products")
    prefix, ctxdesc = "", ""
    if uctx:
        prefix = "units-context/%s/" % _uctx_site(uctx)
        ctxdesc = "[hierarchy built %s, propagator built %s, path %s] " % (
            "inside energy_units(%r)" % uctx["h"] if uctx.get("h") else "outside any context",
            "inside energy_units(%r)" % uctx["p"] if uctx.get("p") else "outside any context",
            case["via"])
    if t0 != 0.0:
        prefix = "axis-start/"
        ctxdesc = "[time axis TimeAxis(%g, %d, %g), path %s] " % (t0, case["nt"], case["dt"],
                                                                 case["via"])
    if baxis:
        prefix = "time-step/"
        ctxdesc = "[propagator on TimeAxis(0, %d, %g), bath correlation functions defined on " \
                  "TimeAxis(0, %d, %g), path %s] " % (case["nt"], case["dt"], baxis["nt"],
                                                      baxis["dt"], case["via"])
    Vs = None
    if coupling:
        prefix = "coupling/%s/" % coupling
        Vs = [numpy.array(b["op"], dtype=float) for b in baths]
        ctxdesc = "[system-bath operators (%s): %s] " % (
            coupling, "; ".join("V_%d = %s" % (k, _op_str(v)) for k, v in enumerate(Vs)))
    worst_ctx = 0.0
    worst_t0 = 0.0
    worst_bax = 0.0
    ctx_root = False

    def add(key, what, det=None, raw=False):
        if not raw:
            key, what = prefix + key, ctxdesc + what
        if key not in seen:
            seen.add(key)
            viol.append((key, what, det))

    groups = _groups(N)
    amp = {g: float(numpy.max(numpy.abs(rho0[m]))) if m.any() else 0.0
           for g, m in groups.items()}
    errs = {g: [] for g in groups}
    kappa = {g: 0.0 for g in groups}
    for a in range(N):
        for b in range(N):
            if coupling or a == b or abs(rho0[a, b]) == 0.0:
                continue
            inv = [baths[x - 1] for x in (a, b) if x > 0]
            kT = LS.kBT_int(inv[0]["T"])
            lsum = sum(LS.to_int(x["reorg"]) for x in inv)
            gmin = min(1.0 / float(x["cortime"]) for x in inv)
            g = "optical" if (a == 0 or b == 0) else "intersite"
            kappa[g] = max(kappa[g], float(numpy.sqrt(2.0 * kT * lsum) / gmin))
    admissible = {g: kappa[g] <= KAPPA_MAX for g in groups}
    worst = {"trace": 0.0, "herm": 0.0, "closed": 0.0, "closed_ratio": 0.0}
    digest = []
    # general coupling operators: exactly solvable iff H and all V_k commute (decided on the
    # Hamiltonian handed to the hierarchy, below); site projectors: iff the sites are uncoupled
    analytic_applies = ((not coupled) or bool(coupling)) and (not all_zero) and ht
    analytic_skipped = None
    solvable = None
    moved = 0.0
    deep = bool(case.get("deep"))
    mono_floor = max(MONO_FLOOR, DEEP_FLOOR_C * float(case["dt"]) ** 4) if deep else MONO_FLOOR
    nu_max = float(case["dt"]) * max(depths) * max(1.0 / float(b["cortime"]) for b in baths)
    worst_rise = 0.0

    for depth in depths:
        pr, hy, ta = _build(case, depth)
        ham = hy.ham
        if uctx and uctx.get("h"):
            # the hierarchy object must hold the bath parameters of the specification
            # in internal units whatever units were current when it was created
            lam_ref = numpy.array([LS.to_int(x) for x in lams], dtype=float)
            lam_got = numpy.asarray(hy.lam, dtype=float)
            if lam_got.shape != lam_ref.shape or float(numpy.max(numpy.abs(lam_got - lam_ref))) \
                    > BATH_GUARD_RTOL * float(numpy.max(lam_ref)) + 1e-15:
                add("units-context/hierarchy-built-inside/reorganisation-energy-in-context-units",
                    ctxdesc + "depth %d: the hierarchy holds reorganisation energies %s, the "
                    "baths have %s (internal units, = %s 1/cm)"
                    % (depth, lam_got.tolist(), lam_ref.tolist(), lams), {"depth": depth},
                    raw=True)
                ctx_root = True
                continue
        if coupling and case["state"] == 0:
            # number of baths != number of sites: the index set belongs to the baths
            for name, det in _index_defects(hy, len(baths), depth,
                                            [1.0 / float(b["cortime"]) for b in baths]):
                add("%s/K=%d" % (name, len(baths)), "depth %d, %d baths on %d sites: %s"
                    % (depth, len(baths), n, det), {"depth": depth})
        rhoi = qr.ReducedDensityMatrix(data=rho0.copy())
        rt = pr.propagate(rhoi)
        d = numpy.array(rt.data)
        t_abs = numpy.array(ta.data, dtype=float)
        if t_abs[0] != t0:
            raise isolation.HarnessError("time axis starts at %r, specified %r" % (t_abs[0], t0))
        # times on which the bath correlation functions were sampled (bath guard only)
        tb_abs = t_abs
        if baxis:
            if len(t_abs) != int(case["nt"]) or float(ta.step) != float(case["dt"]):
                raise isolation.HarnessError("propagation axis is not the specified one")
            tb_abs = float(baxis["dt"]) * numpy.arange(int(baxis["nt"]), dtype=float)
        # the initial state belongs to the FIRST point of the axis: all references are
        # functions of the elapsed time (for an axis starting at zero: t - 0.0 = t exactly)
        t = t_abs - t_abs[0]
        if d.shape != (len(t), N, N):
            add("shape/%s" % sysname, "depth %d: result has shape %s, expected %s"
                % (depth, d.shape, (len(t), N, N)))
            continue
        if not numpy.all(numpy.isfinite(d)):
            add("finite/%s" % sysname, "depth %d state %s: non-finite values in the result"
                % (depth, label))
            continue
        moved = max(moved, float(numpy.max(numpy.abs(d - rho0[None, :, :]))))
        # ---- same construction outside any units context ---------------------------
        if uctx:
            pr0, _, _ = _build(dict(case, uctx=None), depth)
            d0 = numpy.array(pr0.propagate(qr.ReducedDensityMatrix(data=rho0.copy())).data)
            if d0.shape != d.shape or not numpy.all(numpy.isfinite(d0)):
                raise isolation.HarnessError("reference construction outside a units context "
                                             "is not finite")
            e_ctx = float(numpy.max(numpy.abs(d - d0)))
            worst_ctx = max(worst_ctx, e_ctx)
            if e_ctx > RTOL * max(1.0, float(numpy.max(numpy.abs(d0)))):
                add("differs-from-construction-outside-a-context/%s" % sysname,
                    "depth %d state %s: result differs by %.3g from the same objects created "
                    "outside any units context" % (depth, label, e_ctx), {"depth": depth})
        # ---- same objects on an axis with the same step starting at zero ------------
        if t0 != 0.0:
            d0 = _zero_start_reference(case, depth)
            if d0.shape != d.shape or not numpy.all(numpy.isfinite(d0)):
                raise isolation.HarnessError("reference on the axis starting at zero is not "
                                             "finite")
            dev_t = numpy.max(numpy.abs(d - d0), axis=(1, 2))
            e_t0 = float(numpy.max(dev_t))
            worst_t0 = max(worst_t0, e_t0)
            tol_t0 = RTOL * max(1.0, float(numpy.max(numpy.abs(d0))))
            if e_t0 > tol_t0:
                k = int(numpy.argmax(dev_t > tol_t0))
                add("differs-from-axis-starting-at-zero/%s" % sysname,
                    "depth %d state %s: result differs by %.3g (first at stored index %d) "
                    "from the same system on TimeAxis(0, %d, %g)"
                    % (depth, label, e_t0, k, case["nt"], case["dt"]),
                    {"depth": depth, "time_index": k})
        # ---- same system with the bath defined on the propagation axis itself ---------
        if baxis:
            d0 = _same_axis_reference(case, depth)
            if d0.shape != d.shape or not numpy.all(numpy.isfinite(d0)):
                raise isolation.HarnessError("reference with the bath on the propagation axis "
                                             "is not finite")
            dev_t = numpy.max(numpy.abs(d - d0), axis=(1, 2))
            e_b = float(numpy.max(dev_t))
            worst_bax = max(worst_bax, e_b)
            tol_b = RTOL * max(1.0, float(numpy.max(numpy.abs(d0))))
            if e_b > tol_b:
                k = int(numpy.argmax(dev_t > tol_b))
                add("differs-from-bath-defined-on-the-propagation-axis/%s" % sysname,
                    "depth %d state %s: result differs by %.3g (first at stored index %d) "
                    "from the same system whose bath correlation functions are defined on the "
                    "propagation axis" % (depth, label, e_b, k),
                    {"depth": depth, "time_index": k})
        # ---- trace and Hermiticity at every stored time -----------------------
        tr = numpy.trace(d, axis1=1, axis2=2)
        e_tr = float(numpy.max(numpy.abs(tr - 1.0)))
        e_he = float(numpy.max(numpy.abs(d - numpy.conj(numpy.transpose(d, (0, 2, 1))))))
        sc = max(1.0, float(numpy.max(numpy.abs(d))))
        worst["trace"] = max(worst["trace"], e_tr)
        worst["herm"] = max(worst["herm"], e_he)
        if e_tr > RTOL * sc:
            k = int(numpy.argmax(numpy.abs(tr - 1.0)))
            add("trace/%s" % sysname,
                "depth %d state %s: |Tr rho - 1| = %.3g at stored time index %d"
                % (depth, label, e_tr, k), {"depth": depth, "time_index": k})
        if e_he > RTOL * sc:
            add("hermiticity/%s" % sysname,
                "depth %d state %s: max |rho - rho^+| = %.3g" % (depth, label, e_he),
                {"depth": depth})
        H = numpy.array(ham.data, dtype=complex)
        om = numpy.array(ham.rwa_energies, dtype=float)
        frame_ok = CR.commutes(H, om)
        if coupling and solvable is None:
            Hrot = H - numpy.diag(om)
            solvable = bool(frame_ok and CD.commute_all(Hrot, Vs))
            if analytic_applies and not solvable:
                analytic_applies = False
                analytic_skipped = "coupling-operators-do-not-commute"
            if analytic_applies:
                kap = CD.coupling_strength(
                    rho0, Hrot, Vs, [LS.to_int(b["reorg"]) for b in baths],
                    [1.0 / float(b["cortime"]) for b in baths], LS.kBT_int(baths[0]["T"]))
                if kap is None:
                    raise isolation.HarnessError("commuting operators without a joint "
                                                 "eigenbasis")
                kappa = {g: float(kap) for g in groups}
                admissible = {g: kappa[g] <= KAPPA_MAX for g in groups}
        # ---- zero coupling strength -> closed system --------------------------
        if all_zero and frame_ok:
            ref = CR.closed_evolution(H, om, rho0, t)
            bound = CR.taylor_bound(H, om, float(case["dt"]), len(t) - 1, TAYLOR_ORDER)
            dev = numpy.sqrt(numpy.sum(numpy.abs(d - ref) ** 2, axis=(1, 2)))
            tol = 2.0 * bound * float(numpy.linalg.norm(rho0)) + RTOL
            worst["closed"] = max(worst["closed"], float(numpy.max(dev)))
            worst["closed_ratio"] = max(worst["closed_ratio"], float(numpy.max(dev / tol)))
            if numpy.any(dev > tol):
                k = int(numpy.argmax(dev / tol))
                add("closed-system/%s/%s" % (sysname, "depth=0" if depth == 0 else "depth>0"),
                    "lambda=0, depth %d state %s: |rho - expm(-i(H-Om)t)rho0 expm(+)|_F = "
                    "%.3g at t index %d, Taylor-%d bound allows %.3g"
                    % (depth, label, float(dev[k]), k, TAYLOR_ORDER, float(tol[k])),
                    {"depth": depth, "time_index": k})
        # ---- uncoupled sites -> analytic pure dephasing -------------------------
        if analytic_applies and frame_ok:
            gs, guard_bad = [], None
            for k, b in enumerate(baths):
                lam, gam, kBT = LS.bath_params_int(b)
                gs.append(LS.g_ht(t, lam, gam, kBT))
                c_lib = numpy.array(hy.sbi.CC.get_correlation_function(k, k).data)
                c_ref = LS.corfce_ht(tb_abs, lam, gam, kBT)
                sc_c = max(float(numpy.max(numpy.abs(c_ref))), 1e-300)
                if c_lib.shape != c_ref.shape or \
                        float(numpy.max(numpy.abs(c_lib - c_ref))) > BATH_GUARD_RTOL * sc_c:
                    if lam != 0.0:
                        guard_bad = k
            if guard_bad is not None:
                add("analytic/bath-not-HT-form",
                    "bath %d: the attached correlation function is not lam(2kT-i/tau)"
                    "exp(-t/tau); the analytic g(t) of the hierarchy's bath does not "
                    "belong to it" % guard_bad)
                analytic_applies = False
                analytic_skipped = "bath-guard"
            else:
                if coupling:
                    ref = CD.solution(rho0, t, H - numpy.diag(om), Vs, gs)
                    if ref is None:
                        raise isolation.HarnessError("commuting operators without a joint "
                                                     "eigenbasis")
                else:
                    ref = LS.pure_dephasing_solution(rho0, t, numpy.real(numpy.diag(H)) - om,
                                                     gs, [None] + list(range(n)))
                for g, m in groups.items():
                    errs[g].append(float(numpy.max(numpy.abs((d - ref)[:, m]))) if m.any() else 0.0)
        elif analytic_applies and not frame_ok:
            analytic_applies = False
            analytic_skipped = "rwa-reference-does-not-commute"

    if analytic_applies and all(len(errs[g]) == len(depths) for g in errs) and len(depths) >= 2:
        for g in ("optical", "intersite", "population"):
            e = errs[g]
            # "converges with increasing depth": never increasing ...
            for i in range(1, len(e)):
                if e[i] > e[i - 1]:
                    worst_rise = max(worst_rise, e[i])
                if e[i] > e[i - 1] and e[i] > mono_floor:
                    add("analytic/%s/not-monotone" % g,
                        "state %s: error vs analytic solution grows from depth %d (%.3g) "
                        "to depth %d (%.3g)" % (label, depths[i - 1], e[i - 1], depths[i], e[i]),
                        {"errors": e, "depths": depths})
                    break
            # ... and small at the deepest level
            a = amp[g] if amp[g] > 0 else 1.0
            if admissible[g] and e[-1] > TOLS[g] * a + RTOL:
                add("analytic/%s/not-converged" % g,
                    "state %s: error at depth %d is %.3g (initial amplitude %.3g), "
                    "tolerance %.3g" % (label, depths[-1], e[-1], a, TOLS[g] * a),
                    {"errors": e, "depths": depths})
        digest = [[_r(x) for x in errs[g]] for g in ("optical", "intersite")]

    superpos = case["state"] >= N
    excited_pop = 1 <= case["state"] < N
    nontrivial = bool((superpos or (coupled and excited_pop)) and moved > 1e-6)
    info = {"sec": "ctx" if uctx else "starts" if t0 != 0.0 else "coupling" if coupling
            else "steps" if baxis else "dyn",
            "worst_ctx": worst_ctx, "ctx_root": ctx_root, "worst_t0": worst_t0,
            "worst_bax": worst_bax,
            "step_ratio": float(case["dt"]) / float(baxis["dt"]) if baxis else None,
            "t0": t0, "coupling": coupling, "solvable": solvable, "nbath": len(baths),
            "worst": worst, "errs": errs if analytic_applies else None,
            "amp": amp, "analytic": bool(analytic_applies), "skipped": analytic_skipped,
            "kappa": kappa, "admissible": admissible,
            "label": label, "lam": lams, "sys": sysname, "dmax": depths[-1],
            "deep": deep, "nu_max": nu_max, "worst_rise": worst_rise,
            "dt": float(case["dt"])}
    outcome = [sysname, case["energies"], lams, case["via"], case.get("rwa", "blocks"),
               case["dt"], label, _r(moved, 4), digest]
    if case.get("jphase"):
        outcome.append(case["jphase"])
    if uctx:
        outcome.append([uctx.get("h"), uctx.get("p")])
    if t0 != 0.0:
        outcome.append(["t0", t0])
    if coupling:
        outcome.append(["coupling", coupling, [b["cortime"] for b in baths]])
    if baxis:
        outcome.append(["bath-axis", baxis["nt"], baxis["dt"]])
    if deep:
        outcome.append(["deep", depths, [b["cortime"] for b in baths], case["nt"]])
    return {"nontrivial": nontrivial, "outcome": outcome, "violations": viol,
            "n": len(depths) - 1, "info": info}


# ----------------------------------------------------------------------------
# section hist: request histories on one open system
# ----------------------------------------------------------------------------
HIST_BATH = {"ftype": HT, "reorg": 60.0, "cortime": 50.0, "T": 300.0}
HIST_NT, HIST_DT = 6, 6.0
_REF_CACHE = {}


def _hist_baths(K):
    return [dict(HIST_BATH, reorg=HIST_BATH["reorg"] - 10.0 * k,
                 cortime=HIST_BATH["cortime"] + 15.0 * k) for k in range(K)]


def _hist_spec(system, K):
    """The open system of a history case: K two-level sites, each with its own bath."""
    en = [E0 + 150.0 * k - 40.0 * k * k for k in range(K)]
    J = systems.full_J(K, [100.0, -60.0, 40.0]) if K > 1 else None
    return {"system": system, "K": K, "energies": en, "J": J, "bath": _hist_baths(K),
            "nt": HIST_NT, "dt": HIST_DT}


def _hist_open_system(case):
    """Fresh Molecule / built Aggregate with environments -> (open system, time axis)."""
    qr = isolation.qr()
    ta = systems.time_axis(int(case["nt"]), float(case["dt"]))
    en = [float(e) for e in case["energies"]]
    baths = _bath_list(case["bath"], len(en))
    if case["system"] == "molecule":
        with qr.energy_units("1/cm"):
            osys = qr.Molecule(elenergies=[0.0, en[0]])
        osys.set_transition_environment((0, 1), systems.corfce(ta, baths[0]))
    else:
        osys = systems.aggregate(en, J=case.get("J"), bath=baths, ta=ta)
    isolation.reset_units()
    return osys, ta


def _hist_reference(case, depth):
    """Propagation of every spanning state by a hierarchy of `depth` CONSTRUCTED DIRECTLY
    from an independently built Hamiltonian and system-bath interaction (no open-system
    object involved).  Deterministic; memoised per worker process."""
    key = repr((case["energies"], case.get("J"), case["bath"], case["nt"], case["dt"], depth))
    if key not in _REF_CACHE:
        qr = isolation.qr()
        from quantarhei import KTHierarchy, KTHierarchyPropagator
        en = [float(e) for e in case["energies"]]
        n = len(en)
        J = case.get("J") or [[0.0] * n for _ in range(n)]
        ta = systems.time_axis(int(case["nt"]), float(case["dt"]))
        ham, sbi = systems.ham_sbi(en, J, _bath_list(case["bath"], n), ta)
        isolation.reset_units()
        ham.set_rwa([0, 1])
        out = []
        for _, rho0 in spanning_states(n + 1):
            hy = KTHierarchy(ham, sbi, depth)
            pr = KTHierarchyPropagator(ta, hy)
            out.append(numpy.array(pr.propagate(qr.ReducedDensityMatrix(data=rho0.copy())).data))
        _REF_CACHE[key] = numpy.array(out)
    return _REF_CACHE[key]


def _index_defects(hy, K, depth, gam):
    """[(oracle/defect, detail)] of one hierarchy object against the requested depth."""
    out = []
    hinds = numpy.array(hy.hinds)
    if hy.nbath != K:
        return [("index-set/nbath", "hierarchy has %s baths, system has %d" % (hy.nbath, K))]
    for name, det in HI.check_index_set(hinds, hy.levels, hy.levlengths, hy.hsize, K, depth):
        out.append(("index-set/%s" % name, det))
    if hinds.ndim == 2 and hinds.shape[1] == K:
        for name, det in HI.check_links(hinds, hy.nm1, hy.np1, depth):
            out.append(("links/%s" % name, det))
        ref = HI.decay_factors(hinds, gam)
        got = numpy.asarray(hy.Gamma, dtype=float)
        scale = max(1e-3, float(numpy.max(numpy.abs(ref)))) if ref.size else 1.0
        if got.shape != ref.shape or not numpy.all(numpy.isfinite(got)) or \
                float(numpy.max(numpy.abs(got - ref))) > RTOL * scale:
            out.append(("gamma", "Gamma differs from sum_k n_k/tau_k"))
    return out


def _propagate_all(pr, N):
    qr = isolation.qr()
    return [numpy.array(pr.propagate(qr.ReducedDensityMatrix(data=rho0.copy())).data)
            for _, rho0 in spanning_states(N)]


def eval_hist(case):
    qr = isolation.qr()
    from quantarhei import KTHierarchyPropagator
    K = int(case["K"])
    N = K + 1
    hist = [int(d) for d in case["history"]]
    word = case["word"]
    prop = bool(case.get("prop"))
    tag = "%s/K=%d" % (case["system"], K)
    gam = [1.0 / float(b["cortime"]) for b in _bath_list(case["bath"], K)]
    labels = [l for l, _ in spanning_states(N)]
    viol, seen = [], set()

    def add(key, what, det=None):
        if key not in seen:
            seen.add(key)
            viol.append((key, what, det))

    def compare(data, depth, step, how, keyprefix):
        """Propagation oracles of one returned object (all spanning states)."""
        ref = _hist_reference(case, depth)
        worst = 0.0
        for si, d in enumerate(data):
            where = "request #%d %s(%d) of history %s/%s, state %s" % (
                step, "get_KTHierarchyPropagator" if how == "p" else "get_KTHierarchy",
                depth, hist, word, labels[si])
            if d.shape != ref[si].shape or not numpy.all(numpy.isfinite(d)):
                add("%s/shape-or-finite/%s" % (keyprefix, tag), where + ": shape %s / "
                    "non-finite values" % (d.shape,), {"step": step})
                continue
            sc = max(1.0, float(numpy.max(numpy.abs(ref[si]))))
            e = float(numpy.max(numpy.abs(d - ref[si])))
            worst = max(worst, e)
            if e > RTOL * sc:
                add("%s/propagation/%s" % (keyprefix, tag),
                    where + ": differs by %.3g from the hierarchy of depth %d constructed "
                    "directly" % (e, depth), {"step": step, "depth": depth, "state": labels[si]})
            tr = numpy.trace(d, axis1=1, axis2=2)
            if float(numpy.max(numpy.abs(tr - 1.0))) > RTOL * sc:
                add("%s/trace/%s" % (keyprefix, tag), where + ": |Tr rho - 1| = %.3g"
                    % float(numpy.max(numpy.abs(tr - 1.0))), {"step": step})
            he = float(numpy.max(numpy.abs(d - numpy.conj(numpy.transpose(d, (0, 2, 1))))))
            if he > RTOL * sc:
                add("%s/hermiticity/%s" % (keyprefix, tag), where + ": max |rho - rho^+| = %.3g"
                    % he, {"step": step})
        return worst

    osys, ta = _hist_open_system(case)
    returned = []                       # (depth, how, hierarchy, propagator, clean at return)
    sizes = []
    worst = 0.0
    for step, (depth, how) in enumerate(zip(hist, word)):
        if how == "p":
            pr = osys.get_KTHierarchyPropagator(depth)
            hy = pr.hy
        else:
            hy = osys.get_KTHierarchy(depth)
            pr = None
        isolation.reset_units()
        defects = _index_defects(hy, K, depth, gam)
        for name, det in defects:
            add("history/%s/%s" % (name, tag),
                "request #%d %s(%d) of history %s/%s on one %s: %s"
                % (step, "get_KTHierarchyPropagator" if how == "p" else "get_KTHierarchy",
                   depth, hist, word, case["system"], det), {"step": step, "depth": depth})
        sizes.append(int(hy.hsize))
        clean = not defects
        if prop:
            if pr is None:
                # what a user does with a returned hierarchy
                pr = KTHierarchyPropagator(hy.sbi.TimeAxis, hy)
            worst = max(worst, compare(_propagate_all(pr, N), depth, step, how, "history"))
        returned.append((depth, how, hy, pr, clean))
    # ---- objects handed out earlier must still be what was requested -------------
    for step, (depth, how, hy, pr, clean) in enumerate(returned[:-1]):
        if not clean:
            continue
        for name, det in _index_defects(hy, K, depth, gam):
            add("history/earlier-object-changed/%s/%s" % (name, tag),
                "object returned by request #%d (depth %d) of history %s/%s is no longer a "
                "hierarchy of that depth after the later requests: %s"
                % (step, depth, hist, word, det), {"step": step, "depth": depth})
    if prop and len(returned) > 1 and returned[0][4]:
        depth, how, hy, pr, _ = returned[0]
        worst = max(worst, compare(_propagate_all(pr, N), depth, 0, how,
                                   "history/earlier-object-changed"))
    distinguish = None
    if prop and len(set(hist)) > 1:
        refs = [_hist_reference(case, d) for d in sorted(set(hist))]
        distinguish = min(float(numpy.max(numpy.abs(a - b)))
                          for i, a in enumerate(refs) for b in refs[i + 1:])
    nontrivial = len(set(hist)) > 1 and (not prop or distinguish > 1e-7)
    outcome = [case["system"], K, hist, word, sizes, bool(prop)]
    return {"nontrivial": bool(nontrivial), "outcome": outcome, "violations": viol,
            "n": (len(hist) + 1) * N * N - 1 if prop else len(hist) - 1,
            "info": {"sec": "hist", "prop": prop, "worst": worst, "distinguish": distinguish,
                     "descending": any(a > b for a, b in zip(hist, hist[1:]))}}


# ----------------------------------------------------------------------------
# section calls: propagation-call histories on one propagator object
# ----------------------------------------------------------------------------
CALL_OPTS = {"o": ("ordinary", {}),
             "f": ("free_hierarchy", {"free_hierarchy": True}),
             "r": ("report_hierarchy", {"report_hierarchy": True}),
             "b": ("free+report_hierarchy", {"free_hierarchy": True, "report_hierarchy": True})}
CALL_CHECKED = "or"             # calls that return the propagated reduced density matrix
CALLS_ANALYTIC_DEPTH = 5        # depth at which the class Q numbers were calibrated (quick)
_CALL_REF = {}


def call_states(N):
    """The spanning set + one generic valid state with every matrix element non-zero
    (index N^2; pure state, components of different modulus and phase)."""
    out = spanning_states(N)
    v = numpy.array([(k + 1.0) * numpy.exp(0.7j * k) for k in range(N)])
    v = v / numpy.linalg.norm(v)
    out.append(("gen", numpy.outer(v, v.conj())))
    return out


def _call_fresh(case, si):
    """Ordinary propagation of state `si` by a FRESH propagator on a fresh hierarchy of the
    case's system (same construction path).  Deterministic; memoised per worker process."""
    key = repr((case["energies"], case.get("J"), case["bath"], case["via"], case["nt"],
                case["dt"], case.get("e0", 0.0), case["depth"], si))
    if key not in _CALL_REF:
        qr = isolation.qr()
        pr, _, _ = _build(case, int(case["depth"]))
        rho0 = call_states(len(case["energies"]) + 1)[si][1]
        _CALL_REF[key] = numpy.array(pr.propagate(qr.ReducedDensityMatrix(data=rho0.copy())).data)
    return _CALL_REF[key]


def _kappa(rho0, baths):
    """Dimensionless coupling of the element groups present in rho0 (see KAPPA_MAX)."""
    N = rho0.shape[0]
    kappa = {"optical": 0.0, "intersite": 0.0, "population": 0.0}
    for a in range(N):
        for b in range(N):
            if a == b or abs(rho0[a, b]) == 0.0:
                continue
            inv = [baths[x - 1] for x in (a, b) if x > 0]
            kT = LS.kBT_int(inv[0]["T"])
            lsum = sum(LS.to_int(x["reorg"]) for x in inv)
            gmin = min(1.0 / float(x["cortime"]) for x in inv)
            g = "optical" if (a == 0 or b == 0) else "intersite"
            kappa[g] = max(kappa[g], float(numpy.sqrt(2.0 * kT * lsum) / gmin))
    return kappa


def eval_calls(case):
    qr = isolation.qr()
    en = case["energies"]
    n = len(en)
    N = n + 1
    depth = int(case["depth"])
    word, sidx = case["word"], [int(x) for x in case["states"]]
    J = case.get("J") or [[0.0] * n for _ in range(n)]
    coupled = any(J[i][j] != 0 for i in range(n) for j in range(n) if i != j)
    baths = _bath_list(case["bath"], n)
    lams = [float(b["reorg"]) for b in baths]
    all_zero = all(l == 0.0 for l in lams)
    ht = all(b.get("ftype", HT) == HT for b in baths)
    sysname = "%dsite/%s" % (n, "coupled" if coupled else "uncoupled")
    states = call_states(N)
    groups = _groups(N)
    viol, seen = [], set()

    def add(key, what, det=None):
        if key not in seen:
            seen.add(key)
            viol.append((key, what, det))

    pr, hy, ta = _build(case, depth)
    ham = hy.ham
    t = numpy.array(ta.data, dtype=float)
    H = numpy.array(ham.data, dtype=complex)
    om = numpy.array(ham.rwa_energies, dtype=float)
    frame_ok = CR.commutes(H, om)
    analytic = (not coupled) and (not all_zero) and ht and frame_ok and \
        depth >= CALLS_ANALYTIC_DEPTH
    if analytic:
        gs = []
        for k, b in enumerate(baths):
            lam, gam, kBT = LS.bath_params_int(b)
            gs.append(LS.g_ht(t, lam, gam, kBT))
            c_lib = numpy.array(hy.sbi.CC.get_correlation_function(k, k).data)
            c_ref = LS.corfce_ht(t, lam, gam, kBT)
            if lam != 0.0 and (c_lib.shape != c_ref.shape or float(numpy.max(numpy.abs(
                    c_lib - c_ref))) > BATH_GUARD_RTOL * float(numpy.max(numpy.abs(c_ref)))):
                analytic = False        # reported by section dyn (analytic/bath-not-HT-form)
    used = []
    worst = {"fresh": 0.0, "closed_ratio": 0.0, "analytic": 0.0}
    nchecked, nafter, moved = 0, 0, 0.0
    held = []           # results the caller keeps: [step, option, state, object, data then]
    nheld, held_distinct = 0, 0
    for step, (opt, si) in enumerate(zip(word, sidx)):
        label, rho0 = states[si]
        name, kw = CALL_OPTS[opt]
        rt = pr.propagate(qr.ReducedDensityMatrix(data=rho0.copy()), **kw)
        # ---- evolutions returned by EARLIER calls, still held by the caller, are the
        # dynamics of THEIR initial states whatever ran on the propagator afterwards
        for h in held:
            s0, n0, l0, obj, snap = h
            now = numpy.array(obj.data)
            nheld += 1
            held_distinct += 1 if sidx[s0] != si else 0
            same = now.shape == snap.shape and bool(numpy.all(
                (now == snap) | (numpy.isnan(now) & numpy.isnan(snap))))
            if not same:
                e = float(numpy.max(numpy.abs(now - snap))) if now.shape == snap.shape \
                    else float("nan")
                add("calls/earlier-result-changed-by-later-call/%s-then-%s/%s"
                    % (n0, name, sysname),
                    "the evolution returned by call #%d (%s, state %s) changed by %.3g while "
                    "call #%d (%s, state %s) ran on the same propagator (history %s on states "
                    "%s); returned objects are %s"
                    % (s0, n0, l0, e, step, name, label,
                       "-".join(CALL_OPTS[o][0] for o in word), [states[i][0] for i in sidx],
                       "one and the same" if obj is rt else "different"),
                    {"earlier": s0, "later": step})
                h[4] = now              # report every change once, at the call that made it
        before = "+".join(sorted(set(used))) if used else "nothing"
        used.append(name)
        if opt not in CALL_CHECKED:
            continue
        held.append([step, name, label, rt, numpy.array(rt.data)])
        nchecked += 1
        nafter += 1 if step > 0 else 0
        how = "%s-after-%s" % (name, before)
        where = "call #%d (%s, state %s) of the history %s on states %s on one propagator" % (
            step, name, label, "-".join(CALL_OPTS[o][0] for o in word),
            [states[i][0] for i in sidx])
        d = numpy.array(rt.data)
        ref = _call_fresh(case, si)
        if d.shape != ref.shape or not numpy.all(numpy.isfinite(d)):
            add("calls/shape-or-finite/%s/%s" % (how, sysname),
                where + ": shape %s / non-finite values" % (d.shape,), {"step": step})
            continue
        if step > 0:
            moved = max(moved, float(numpy.max(numpy.abs(ref - rho0[None, :, :]))))
        sc = max(1.0, float(numpy.max(numpy.abs(ref))))
        e = float(numpy.max(numpy.abs(d - ref)))
        worst["fresh"] = max(worst["fresh"], e)
        if e > RTOL * sc:
            add("calls/differs-from-fresh-propagator/%s/%s" % (how, sysname),
                where + ": differs by %.3g from the result of a fresh propagator on a fresh "
                "hierarchy" % e, {"step": step})
        tr = numpy.trace(d, axis1=1, axis2=2)
        if float(numpy.max(numpy.abs(tr - 1.0))) > RTOL * sc:
            add("calls/trace/%s/%s" % (how, sysname), where + ": |Tr rho - 1| = %.3g"
                % float(numpy.max(numpy.abs(tr - 1.0))), {"step": step})
        he = float(numpy.max(numpy.abs(d - numpy.conj(numpy.transpose(d, (0, 2, 1))))))
        if he > RTOL * sc:
            add("calls/hermiticity/%s/%s" % (how, sysname), where + ": max |rho - rho^+| = %.3g"
                % he, {"step": step})
        if all_zero and frame_ok:
            cref = CR.closed_evolution(H, om, rho0, t)
            bound = CR.taylor_bound(H, om, float(case["dt"]), len(t) - 1, TAYLOR_ORDER)
            dev = numpy.sqrt(numpy.sum(numpy.abs(d - cref) ** 2, axis=(1, 2)))
            tol = 2.0 * bound * float(numpy.linalg.norm(rho0)) + RTOL
            worst["closed_ratio"] = max(worst["closed_ratio"], float(numpy.max(dev / tol)))
            if numpy.any(dev > tol):
                k = int(numpy.argmax(dev / tol))
                add("calls/closed-system/%s/%s" % (how, sysname),
                    where + ": lambda=0, |rho - expm(-i(H-Om)t)rho0 expm(+)|_F = %.3g at t "
                    "index %d, Taylor-%d bound allows %.3g"
                    % (float(dev[k]), k, TAYLOR_ORDER, float(tol[k])), {"step": step})
        if analytic:
            aref = LS.pure_dephasing_solution(rho0, t, numpy.real(numpy.diag(H)) - om, gs,
                                              [None] + list(range(n)))
            kap = _kappa(rho0, baths)
            for g, m in groups.items():
                if not m.any() or kap[g] > KAPPA_MAX:
                    continue
                a = float(numpy.max(numpy.abs(rho0[m])))
                a = a if a > 0 else 1.0
                err = float(numpy.max(numpy.abs((d - aref)[:, m])))
                worst["analytic"] = max(worst["analytic"], err / a)
                if err > TOLS[g] * a + RTOL:
                    add("calls/analytic/%s/not-converged/%s" % (g, how),
                        where + ": error vs the analytic dephasing solution at depth %d is "
                        "%.3g (initial amplitude %.3g), tolerance %.3g"
                        % (depth, err, a, TOLS[g] * a), {"step": step})
    nontrivial = bool(nafter > 0 and moved > 1e-6)
    outcome = [sysname, case["via"], depth, word, sidx, _r(moved, 4)]
    return {"nontrivial": nontrivial, "outcome": outcome, "violations": viol,
            "n": len(word) - 1,
            "info": {"sec": "calls", "worst": worst, "checked": nchecked,
                     "checked_after_earlier_call": nafter, "analytic": bool(analytic),
                     "held_checks": nheld, "held_checks_other_state": held_distinct,
                     "closed": bool(all_zero and frame_ok),
                     "after_free": any(CALL_OPTS[o][1].get("free_hierarchy")
                                       for o in word[:-1])}}


def eval_case(case):
    if case["sec"] == "index":
        return eval_index(case)
    if case["sec"] == "hist":
        return eval_hist(case)
    if case["sec"] == "calls":
        return eval_calls(case)
    return eval_dyn(case)


def replay(case):
    return eval_case(case)["violations"]


# ----------------------------------------------------------------------------
# spaces
# ----------------------------------------------------------------------------
def _bath(reorg, cortime=50.0, T=300.0, ftype=HT):
    return {"ftype": ftype, "reorg": float(reorg), "cortime": float(cortime), "T": float(T)}


def _J(n, j):
    return systems.chain_J(n, float(j))


def index_cases(tier):
    if tier == "quick":
        Ks, Ds, ftypes = [1, 2, 3, 4], list(range(0, 6)), [HT]
    else:
        Ks, Ds, ftypes = [1, 2, 3, 4, 5], list(range(0, 8)), [HT, OB]
    pts = product({"ftype": ftypes, "via": ["direct", "agg"], "K": Ks, "depth": Ds},
                  # K=5 only up to depth 6 (cost of the library's O(hsize^2) neighbour search)
                  lambda c: not (c["K"] == 5 and c["depth"] > 6))
    out = [_index_case(p["K"], p["depth"], p["via"], p["ftype"]) for p in pts]
    # deep hierarchies with few baths (multi-indices with components >= 10)
    deep = {1: [11, 13], 2: [10, 11, 12], 3: [10, 11]} if tier == "quick" else \
        {1: [9, 11, 13, 21], 2: [9, 10, 11, 12, 14], 3: [9, 10, 11, 12]}
    for K, ds in deep.items():
        for dpt in ds:
            out.append(_index_case(K, dpt, "direct", HT))
    return out


def dyn_cases(tier):
    out = []

    def add(energies, J, bath, via, rwa, nt, dt, depths, e0=0.0, jphase=0, deep=False):
        N = len(energies) + 1
        if deep:
            # admissible resolution numbers only (see NU_MAX)
            gmax = max(1.0 / float(b["cortime"]) for b in _bath_list(bath, len(energies)))
            depths = [d for d in depths if dt * d * gmax <= NU_MAX]
            if len(depths) < 2:
                return
        for s in range(N * N):
            c = {"sec": "dyn", "energies": energies, "J": J, "bath": bath,
                 "via": via, "rwa": rwa, "nt": nt, "dt": dt, "state": s,
                 "depths": depths, "e0": e0}
            if jphase:
                c["jphase"] = jphase
            if deep:
                c["deep"] = 1
            out.append(c)

    def add_deep():
        """fast baths x time steps x deep hierarchies: nu = dt*D/tau crosses 1"""
        dim = [E0, E0 + 200.0]
        if tier == "quick":
            for tau in (10.0, 30.0):
                for nt, dt in ((60, 1.0), (30, 2.0)):
                    add([E0], None, _bath(60.0, tau), "direct", "blocks", nt, dt,
                        [0, 4, 8, 12, 16], deep=True)
            for nt, dt in ((20, 1.0), (10, 2.0)):
                add(dim, _J(2, 100.0), _bath(0.0, 10.0), "agg", "blocks", nt, dt, [0, 6, 12],
                    deep=True)
            return
        DD = [0, 2, 4, 6, 8, 10, 11, 12, 14, 16, 20]
        steps = ((150, 1.0), (75, 2.0), (50, 3.0))
        for tau in (10.0, 20.0, 30.0):
            for nt, dt in steps:
                for lam in (30.0, 60.0):
                    for via in ("agg", "direct"):
                        add([E0], None, _bath(lam, tau), via, "blocks", nt, dt, DD, deep=True)
        mixedf = [_bath(60.0, 10.0), _bath(30.0, 20.0)]
        for nt, dt in ((60, 1.0), (30, 2.0)):
            for b in (_bath(0.0, 10.0), _bath(60.0, 10.0), _bath(60.0, 30.0), mixedf):
                # uncoupled: analytic clause incl. the inter-site coherence; coupled: closed
                # system (lambda = 0), trace / Hermiticity
                for J in (0.0, 100.0):
                    add(dim, _J(2, J), b, "agg", "blocks", nt, dt, [0, 2, 4, 6, 8, 10, 12],
                        deep=True)
            add(dim, _J(2, 100.0), _bath(0.0, 10.0), "direct", "blocks", nt, dt, [0, 11, 16],
                deep=True)
        for nt, dt in ((12, 1.0), (6, 2.0)):
            add([E0, E0 + 200.0, E0 - 100.0], _J(3, 100.0), _bath(0.0, 10.0), "direct", "blocks",
                nt, dt, [0, 5, 11], deep=True)

    ring3 = systems.full_J(3, [100.0])
    en3 = [E0, E0 + 200.0, E0 - 100.0]

    mixed2 = [_bath(30, 50), _bath(20, 40)]
    if tier == "quick":
        D = list(range(0, 6))
        nt, dt = 150, 1.0
        systems_ = [([E0], None)]
        for J in (0.0, 100.0):
            for gap in (0.0, 200.0):
                systems_.append(([E0, E0 + gap], _J(2, J)))
        for en, J in systems_:
            for lam in (0.0, 30.0):
                add(en, J, _bath(lam), "agg", "blocks", nt, dt, D)
        # direct construction, different bath per site
        for J in (0.0, 100.0):
            add([E0, E0 + 200.0], _J(2, J), mixed2, "direct", "blocks", nt, dt, D)
        # a ground state that does not sit at zero energy (the lowest rotating-wave block has
        # its own reference frequency)
        add([E0 + 300.0], None, _bath(0.0), "direct", "blocks", nt, dt, [0, 2], e0=300.0)
        add([E0 + 300.0], None, _bath(30.0), "direct", "blocks", nt, dt, D, e0=300.0)
        add([E0 + 300.0, E0 + 500.0], _J(2, 0.0), _bath(30.0), "agg", "blocks", nt, dt, [0, 2, 4],
            e0=300.0)
        # Hamiltonian class {real, complex Hermitian}: couplings J exp(+-i phi) (direct
        # construction only: the aggregate builder takes real couplings); dimer (phase
        # removable by a gauge choice, |J| is not) and ring of three sites (flux 3 phi,
        # not removable); phi = 90 deg: purely imaginary couplings
        for jph in (0, 30, 90):
            for lam, dd in ((0.0, [0, 2]), (30.0, [0, 1, 2])):
                add([E0, E0 + 200.0], _J(2, 100.0), _bath(lam), "direct", "blocks", 50, 2.0,
                    dd, jphase=jph)
            for lam, dd in ((0.0, [0, 2]), (30.0, [0, 2])):
                add(en3, ring3, _bath(lam), "direct", "blocks", 50, 2.0, dd, jphase=jph)
        add_deep()
        return out
    # ------------------------------ thorough ------------------------------------
    D = list(range(0, 7))
    baths1 = [_bath(0), _bath(30), _bath(60), _bath(30, 30), _bath(30, 50, 77)]
    # monomer
    for b in baths1:
        for via in ("agg", "direct"):
            for nt, dt in ((200, 1.0), (100, 2.0)):
                add([E0], None, b, via, "blocks", nt, dt, D)
    # dimers
    for J in (0.0, 100.0):
        for gap in (0.0, 200.0):
            en = [E0, E0 + gap]
            for b in baths1 + [mixed2]:
                for via, nt, dt in (("agg", 200, 1.0), ("direct", 200, 1.0), ("agg", 100, 2.0)):
                    add(en, _J(2, J), b, via, "blocks", nt, dt, D)
            # the full overdamped-Brownian type (hierarchy uses its high-T limit): only
            # trace / Hermiticity clauses apply
            add(en, _J(2, J), _bath(30, 50, 300, OB), "agg", "blocks", 200, 1.0, D)
            if J == 0.0:
                # every state its own rotating-wave reference (commutes with H only for J=0)
                for b in (_bath(0), _bath(30), mixed2):
                    add(en, _J(2, J), b, "direct", "per-site", 200, 1.0, D)
    for via in ("agg", "direct"):
        for b in (_bath(0), _bath(30)):
            add([E0 + 300.0], None, b, via, "blocks", 200, 1.0, D, e0=300.0)
            add([E0 - 150.0, E0 + 50.0], _J(2, 0.0), b, via, "blocks", 200, 1.0, D, e0=-150.0)
            add([E0 + 300.0, E0 + 500.0], _J(2, 100.0), b, via, "blocks", 200, 1.0, D, e0=300.0)
    # trimers
    mixed3 = [_bath(30, 50), _bath(20, 40), _bath(40, 60)]
    for J in (0.0, 100.0):
        en = [E0, E0 + 200.0, E0 - 100.0]
        for b in (_bath(0), _bath(30), mixed3):
            for via in ("agg", "direct"):
                add(en, _J(3, J), b, via, "blocks", 200, 1.0, D)
    # Hamiltonian class {real, complex Hermitian} (see the quick tier)
    for jph in (0, 30, 90, 120):
        for gap in (0.0, 200.0):
            for b in (_bath(0), _bath(30), mixed2):
                add([E0, E0 + gap], _J(2, 100.0), b, "direct", "blocks", 200, 1.0, D,
                    jphase=jph)
        for b in (_bath(0), _bath(30), mixed3):
            add(en3, ring3, b, "direct", "blocks", 200, 1.0, list(range(0, 5)), jphase=jph)
        # open chain: every phase is removable, the magnitudes are not
        add(en3, _J(3, 100.0), _bath(0), "direct", "blocks", 200, 1.0, [0, 2], jphase=jph)
        # ground state off zero
        add([E0 + 300.0, E0 + 500.0], _J(2, 100.0), _bath(0), "direct", "blocks", 200, 1.0,
            [0, 2], e0=300.0, jphase=jph)
    add_deep()
    return out


# (system, K, largest depth of the alphabet) ; propagation sub-product: {history length:
# largest depth} per system
HIST_SPACE = {
    "quick": ([("molecule", 1, 4), ("aggregate", 1, 4), ("aggregate", 2, 4),
               ("aggregate", 3, 4)],
              {("molecule", 1): {2: 3, 3: 2}, ("aggregate", 2): {2: 3, 3: 2}}),
    "thorough": ([("molecule", 1, 5), ("aggregate", 1, 5), ("aggregate", 2, 5),
                  ("aggregate", 3, 5), ("aggregate", 4, 4)],
                 {("molecule", 1): {2: 5, 3: 4}, ("aggregate", 1): {2: 5, 3: 4},
                  ("aggregate", 2): {2: 5, 3: 4}, ("aggregate", 3): {2: 4, 3: 3}})}


def hist_cases(tier):
    """(system) x (all ordered pairs and triples over the depth alphabet) x (all accessor
    words); `prop`: the sub-product on which every returned object also propagates the
    whole spanning set (depths of the propagation alphabet only)."""
    import itertools
    sys_alpha, prop_alpha = HIST_SPACE[tier]
    out = []
    for system, K, dmax in sys_alpha:
        spec = _hist_spec(system, K)
        pa = prop_alpha.get((system, K), {})
        for length in (2, 3):
            hs = sorted(itertools.product(range(dmax + 1), repeat=length),
                        key=lambda h: (sum(h), h))
            for hist in hs:
                for word in itertools.product("hp", repeat=length):
                    c = dict(spec)
                    c.update({"sec": "hist", "history": list(hist), "word": "".join(word),
                              "prop": bool(length in pa and max(hist) <= pa[length])})
                    out.append(c)
    return out


CTX_UNITS = {"quick": ["1/cm"], "thorough": ["1/cm", "eV"]}


def _ctx_combos(tier):
    """{construction path: [units context of (hierarchy built, propagator built)]}; None =
    outside any context.  Separate steps: full square minus (None, None); the one-call
    accessor: both steps inside the same context."""
    us = [None] + CTX_UNITS[tier]
    indep = [{"h": h, "p": p} for h in us for p in us if (h or p)]
    same = [{"h": u, "p": u} for u in CTX_UNITS[tier]]
    return {"direct": indep, "agg-h": indep, "agg": same}


def ctx_cases(tier):
    out = []
    combos = _ctx_combos(tier)

    def add(energies, J, bath, nt, dt, depths, e0=0.0, vias=("direct", "agg-h", "agg")):
        N = len(energies) + 1
        for via in vias:
            for u in combos[via]:
                for s in range(N * N):
                    out.append({"sec": "dyn", "energies": energies, "J": J, "bath": bath,
                                "via": via, "rwa": "blocks", "nt": nt, "dt": dt, "state": s,
                                "depths": depths, "e0": e0, "uctx": dict(u)})

    mixed2 = [_bath(30, 50), _bath(20, 40)]
    if tier == "quick":
        # zero coupling strength: closed-system clause
        add([E0, E0 + 200.0], _J(2, 100.0), _bath(0.0), 50, 2.0, [0, 2])
        # ground state off zero energy (the lowest block has its own reference frequency),
        # analytic clause on every depth
        add([E0 + 300.0], None, _bath(30.0), 50, 2.0, list(range(0, 6)), e0=300.0)
        # uncoupled sites with different baths: inter-site analytic clause
        add([E0, E0 + 200.0], _J(2, 0.0), mixed2, 30, 2.0, [3, 5], vias=("direct", "agg"))
        # coupled open system (equality with the construction outside, trace, Hermiticity)
        add([E0 + 300.0, E0 + 500.0], _J(2, 100.0), _bath(30.0), 50, 2.0, [2], e0=300.0)
        return out
    # the analytic clause (uncoupled sites) needs the calibrated deepest level 6; coupled
    # systems have the closed-system clause (lambda = 0) and the equality with the
    # construction outside a context, for which shallower hierarchies suffice
    nt, dt = 50, 2.0
    for e0 in (0.0, 300.0):
        for b, dd in ((_bath(0), [0, 2]), (_bath(30), list(range(0, 7)))):
            add([E0 + e0], None, b, nt, dt, dd, e0=e0)
    for gap in (0.0, 200.0):
        for J in (0.0, 100.0):
            add([E0, E0 + gap], _J(2, J), _bath(0), nt, dt, [0, 2])
        for b in (_bath(30), mixed2):
            add([E0, E0 + gap], _J(2, 0.0), b, nt, dt, [0, 3, 6])
            add([E0, E0 + gap], _J(2, 100.0), b, nt, dt, [0, 2, 4])
    add([E0 + 300.0, E0 + 500.0], _J(2, 100.0), _bath(30.0), nt, dt, [0, 2, 4], e0=300.0)
    add([E0 - 150.0, E0 + 50.0], _J(2, 0.0), _bath(30.0), nt, dt, [0, 3, 6], e0=-150.0)
    en3 = [E0, E0 + 200.0, E0 - 100.0]
    for b in (_bath(0), _bath(30)):
        add(en3, _J(3, 100.0), b, nt, dt, [0, 2])
    return out


# ---- time axes that do not start at zero ----------------------------------------------
AXIS_STARTS = {"quick": [-7.5, 25.0], "thorough": [-40.0, -7.5, 0.5, 25.0, 1000.0]}


def starts_cases(tier):
    """(axis start != 0) x (system x construction path x time step) x every spanning state
    x depths.  TimeAxis(t0, nt, dt): the initial state belongs to the first point."""
    out = []

    def add(energies, J, bath, via, nt, dt, depths, e0=0.0, jphase=0, rwa="blocks"):
        N = len(energies) + 1
        for t0 in AXIS_STARTS[tier]:
            for s in range(N * N):
                c = {"sec": "dyn", "energies": energies, "J": J, "bath": bath, "via": via,
                     "rwa": rwa, "nt": nt, "dt": dt, "state": s, "depths": depths,
                     "e0": e0, "t0": t0}
                if jphase:
                    c["jphase"] = jphase
                out.append(c)

    mixed2 = [_bath(30, 50), _bath(20, 40)]
    dim = [E0, E0 + 200.0]
    if tier == "quick":
        # analytic clause, optical coherence (one-call accessor: the axis of the bath)
        add([E0], None, _bath(30.0), "agg", 50, 2.0, [0, 3, 5])
        # zero coupling strength: closed-system clause
        add(dim, _J(2, 100.0), _bath(0.0), "direct", 50, 2.0, [0, 2])
        # uncoupled sites, different baths: inter-site analytic clause
        add(dim, _J(2, 0.0), mixed2, "agg", 30, 2.0, [3, 5])
        # coupled open system: equality with the axis starting at zero, trace, Hermiticity
        add(dim, _J(2, 100.0), _bath(30.0), "agg-h", 40, 2.0, [2])
        return out
    for via in ("agg", "direct"):
        for nt, dt in ((100, 1.0), (50, 2.0)):
            for e0 in (0.0, 300.0):
                add([E0 + e0], None, _bath(30.0), via, nt, dt, [0, 2, 4, 6], e0=e0)
            add(dim, _J(2, 100.0), _bath(0.0), via, nt, dt, [0, 2])
            add(dim, _J(2, 0.0), mixed2, via, nt, dt, [0, 3, 6])
            add(dim, _J(2, 100.0), _bath(30.0), via, nt, dt, [0, 2, 4])
    add(dim, _J(2, 100.0), _bath(30.0), "agg-h", 50, 2.0, [3])
    add(dim, _J(2, 0.0), _bath(30.0), "direct", 50, 2.0, [0, 3, 6], rwa="per-site")
    en3 = [E0, E0 + 200.0, E0 - 100.0]
    for b in (_bath(0.0), _bath(30.0)):
        add(en3, _J(3, 100.0), b, "direct", 50, 2.0, [0, 2])
        add(en3, systems.full_J(3, [100.0]), b, "direct", 50, 2.0, [0, 2], jphase=30)
    add(en3, _J(3, 0.0), [_bath(30, 50), _bath(20, 40), _bath(40, 60)], "agg", 50, 2.0, [3, 5])
    return out


# ---- the propagator's own time axis is not the axis of the bath ---------------------------
# r = (step of the propagation axis) / (step of the bath axis); 1 = a separately built axis of
# the same step (and another length)
STEP_RATIOS = {"quick": [1.0, 0.5, 2.0], "thorough": [1.0, 0.25, 0.5, 2.0, 2.5, 4.0]}
BATH_SPAN = 1.2         # the bath is tabulated over 1.2 x the propagated interval


def _bath_axis(nt, dt, ratio):
    bdt = float(dt) / float(ratio)
    bnt = int(round(BATH_SPAN * nt * dt / bdt))
    if bnt == nt:
        raise isolation.HarnessError("bath axis has the length of the propagation axis")
    return {"nt": bnt, "dt": bdt}


def steps_cases(tier):
    """(step ratio) x (system x construction path x propagation axis) x every spanning state
    x depths.  The propagation axes are those of section dyn / starts (calibrated class Q
    numbers); the axis of the bath correlation functions varies."""
    out = []

    def add(energies, J, bath, via, nt, dt, depths, e0=0.0, jphase=0, rwa="blocks"):
        N = len(energies) + 1
        for r in STEP_RATIOS[tier]:
            for s in range(N * N):
                c = {"sec": "dyn", "energies": energies, "J": J, "bath": bath, "via": via,
                     "rwa": rwa, "nt": nt, "dt": dt, "state": s, "depths": depths,
                     "e0": e0, "bath_axis": _bath_axis(nt, dt, r)}
                if jphase:
                    c["jphase"] = jphase
                out.append(c)

    mixed2 = [_bath(30, 50), _bath(20, 40)]
    dim = [E0, E0 + 200.0]
    if tier == "quick":
        # analytic clause, optical coherence
        add([E0], None, _bath(30.0), "direct", 50, 2.0, [0, 3, 5])
        # zero coupling strength: closed-system clause
        add(dim, _J(2, 100.0), _bath(0.0), "direct", 50, 2.0, [0, 2])
        # uncoupled sites, different baths: inter-site analytic clause (hierarchy from the
        # builder accessor, propagator constructed by the caller)
        add(dim, _J(2, 0.0), mixed2, "agg-h", 30, 2.0, [3, 5])
        return out
    for via in ("agg-h", "direct"):
        for nt, dt in ((100, 1.0), (50, 2.0)):
            add([E0], None, _bath(30.0), via, nt, dt, [0, 2, 4, 6])
            add(dim, _J(2, 100.0), _bath(0.0), via, nt, dt, [0, 2])
            add(dim, _J(2, 0.0), mixed2, via, nt, dt, [0, 3, 6])
        # coupled open system: equality with the bath on the propagation axis, trace,
        # Hermiticity
        add(dim, _J(2, 100.0), _bath(30.0), via, 50, 2.0, [0, 2, 4])
    add([E0 + 300.0], None, _bath(30.0), "direct", 50, 2.0, [0, 2, 4, 6], e0=300.0)
    add(dim, _J(2, 0.0), _bath(30.0), "direct", 50, 2.0, [0, 3, 6], rwa="per-site")
    en3 = [E0, E0 + 200.0, E0 - 100.0]
    add(en3, _J(3, 100.0), _bath(0.0), "direct", 50, 2.0, [0, 2])
    add(en3, systems.full_J(3, [100.0]), _bath(0.0), "direct", 50, 2.0, [0, 2], jphase=30)
    return out


# ---- system-bath coupling operators that are not the site projectors in site order ------
def _diag_op(N, coeffs):
    """Diagonal operator sum_a coeffs[a] |a><a| as a nested list (coeffs: {state: c})."""
    m = [[0.0] * N for _ in range(N)]
    for a, c in coeffs.items():
        m[a][a] = float(c)
    return m


def _flip_op(N, a, b):
    m = [[0.0] * N for _ in range(N)]
    m[a][b] = m[b][a] = 1.0
    return m


def coupling_alphabet(n):
    """[(class, [(operator, bath)])] for n two-level sites (states 0 = ground, 1..n).
    The hierarchy takes V_k from SystemBathInteraction.KK, which accepts any list of real
    operators: the number of baths is independent of the number of sites."""
    N = n + 1
    bA, bB, bC, bw = _bath(30, 50), _bath(20, 40), _bath(10, 60), _bath(10, 50)
    ident = {a: 1.0 for a in range(N)}
    if n == 1:
        return [
            ("two-baths-on-one-site", [(_diag_op(N, {1: 1}), bA), (_diag_op(N, {1: 1}), bB)]),
            ("scaled-projector", [(_diag_op(N, {1: 0.5}), bA)]),
            ("negated-projector", [(_diag_op(N, {1: -1}), bA)]),
            ("bath-on-ground-state", [(_diag_op(N, {0: 1}), bA)]),
            ("energy-gap-operator", [(_diag_op(N, {0: -0.5, 1: 0.5}), bA)]),
            ("unit-operator", [(_diag_op(N, ident), bA)])]
    if n == 2:
        return [
            ("baths-in-reverse-site-order", [(_diag_op(N, {2: 1}), bA), (_diag_op(N, {1: 1}), bB)]),
            ("bath-on-last-site-only", [(_diag_op(N, {2: 1}), bA)]),
            ("bath-on-first-site-only", [(_diag_op(N, {1: 1}), bA)]),
            ("two-baths-on-one-site", [(_diag_op(N, {1: 1}), bA), (_diag_op(N, {1: 1}), bC),
                                       (_diag_op(N, {2: 1}), bB)]),
            ("scaled-projectors", [(_diag_op(N, {1: 0.5}), bA), (_diag_op(N, {2: -1}), bB)]),
            ("shared-bath", [(_diag_op(N, {1: 1, 2: 1}), bA)]),
            ("anticorrelated-bath", [(_diag_op(N, {1: 1, 2: -1}), bw)]),
            ("bath-on-ground-state", [(_diag_op(N, {0: 1}), bA), (_diag_op(N, {2: 1}), bB)]),
            ("unit-operator", [(_diag_op(N, ident), bA)]),
            ("site-exchange-operator", [(_flip_op(N, 1, 2), bA)])]
    if n == 3:
        return [
            ("baths-on-sites-1-and-3", [(_diag_op(N, {1: 1}), bA), (_diag_op(N, {3: 1}), bB)]),
            ("baths-in-cyclic-site-order", [(_diag_op(N, {2: 1}), bA), (_diag_op(N, {3: 1}), bB),
                                            (_diag_op(N, {1: 1}), bC)]),
            ("shared-bath-on-two-sites", [(_diag_op(N, {1: 1, 2: 1}), bA),
                                          (_diag_op(N, {3: 1}), bB)])]
    raise isolation.HarnessError("no coupling alphabet for %d sites" % n)


def coupling_cases(tier):
    """(system) x (coupling class of the alphabet) x (coupling strength {given, 0}) x every
    spanning state x depths, direct construction."""
    out = []

    def add(energies, J, cls, spec, nt, dt, depths, zero=False):
        N = len(energies) + 1
        bath = [dict(b, op=op, reorg=0.0 if zero else b["reorg"]) for op, b in spec]
        for s in range(N * N):
            out.append({"sec": "dyn", "energies": energies, "J": J, "bath": bath,
                        "coupling": cls, "via": "direct", "rwa": "blocks", "nt": nt, "dt": dt,
                        "state": s, "depths": depths, "e0": 0.0})

    dim = [E0, E0 + 200.0]
    en3 = [E0, E0 + 200.0, E0 - 100.0]
    q = tier == "quick"
    nt, dt = (40, 2.0) if q else (75, 2.0)
    DA = [2, 5] if q else [0, 2, 4, 6]          # analytic clause: final level calibrated
    DS = [2] if q else [0, 2, 4]                # no reference but trace / Hermiticity
    for cls, spec in coupling_alphabet(1):
        add([E0], None, cls, spec, nt, dt, DA)
    # quick tier: the two members with three baths (largest index sets) are left to the
    # thorough tier; their classes stay represented (two baths on the one site of a
    # monomer; baths in reverse site order)
    skip = ("two-baths-on-one-site", "baths-in-cyclic-site-order") if q else ()
    for cls, spec in coupling_alphabet(2):
        if cls in skip:
            continue
        # uncoupled sites: every diagonal class is exactly solvable
        add(dim, _J(2, 0.0), cls, spec, nt, dt, DA)
        # coupled sites: solvable iff every V_k commutes with H (shared bath, unit operator)
        solv = cls in ("shared-bath", "unit-operator")
        if solv or not q or cls in ("baths-in-reverse-site-order", "site-exchange-operator"):
            add(dim, _J(2, 100.0), cls, spec, nt, dt, DA if solv else DS)
        # zero coupling strength: closed system whatever the operators are
        if not q or cls in ("baths-in-reverse-site-order", "site-exchange-operator"):
            add(dim, _J(2, 100.0), cls, spec, nt, dt, [0, 2], zero=True)
    for cls, spec in coupling_alphabet(3):
        if cls in skip:
            continue
        add(en3, _J(3, 0.0), cls, spec, 30 if q else 50, 2.0, [2, 5] if q else [0, 3, 5])
        if not q:
            add(en3, _J(3, 100.0), cls, spec, 50, 2.0, [0, 2])
            add(en3, _J(3, 100.0), cls, spec, 50, 2.0, [0, 2], zero=True)
    return out


# calls: (name, energies, J, bath, via, depth, nt, dt, P1 = largest length of the full
# (option x spanning state) history product, P2 = (shortest, longest) option word whose
# earlier calls use the generic state and whose last call runs over the spanning set)
def _calls_space(tier):
    mixed2 = [_bath(30, 50), _bath(20, 40)]
    dim = [E0, E0 + 200.0]
    if tier == "quick":
        return "ofr", [
            ([E0], None, _bath(30.0), "agg", 5, 25, 2.0, 2, (3, 3)),
            (dim, _J(2, 100.0), _bath(0.0), "direct", 1, 8, 5.0, 2, (3, 3)),
            (dim, _J(2, 100.0), _bath(30.0), "agg-h", 2, 8, 5.0, 0, (2, 3))]
    sp = [([E0], None, _bath(30.0), "agg", 5, 30, 2.0, 2, (3, 4)),
          ([E0], None, _bath(30.0), "direct", 5, 30, 2.0, 2, (3, 3))]
    for depth in (1, 2):
        sp.append((dim, _J(2, 100.0), _bath(0.0), "direct", depth, 8, 5.0, 2, (3, 4)))
    sp.append((dim, _J(2, 100.0), _bath(30.0), "agg-h", 1, 8, 5.0, 2, (3, 4)))
    sp.append((dim, _J(2, 100.0), _bath(30.0), "direct", 2, 8, 5.0, 0, (2, 3)))
    sp.append((dim, _J(2, 100.0), _bath(30.0), "agg", 3, 8, 5.0, 0, (2, 3)))
    sp.append((dim, _J(2, 0.0), mixed2, "agg", 5, 30, 2.0, 0, (2, 3)))
    sp.append(([E0, E0 + 200.0, E0 - 100.0], _J(3, 100.0), _bath(30.0), "direct", 2, 6, 5.0,
               0, (2, 3)))
    return "ofrb", sp


def calls_cases(tier):
    import itertools
    opts, space = _calls_space(tier)
    out = []
    for energies, J, bath, via, depth, nt, dt, p1, p2 in space:
        N = len(energies) + 1
        S, G = list(range(N * N)), N * N
        hs = []
        for L in range(1, p1 + 1):
            for w in itertools.product(opts, repeat=L):
                for st in itertools.product(S, repeat=L):
                    hs.append(("".join(w), list(st)))
        for L in range(p2[0], p2[1] + 1):
            for w in itertools.product(opts, repeat=L):
                for s in S:
                    hs.append(("".join(w), [G] * (L - 1) + [s]))
        for w, st in hs:
            out.append({"sec": "calls", "energies": energies, "J": J, "bath": bath, "via": via,
                        "rwa": "blocks", "depth": depth, "nt": nt, "dt": dt, "e0": 0.0,
                        "word": w, "states": st})
    out.sort(key=lambda c: len(c["word"]))
    return out


def cases(tier):
    return (index_cases(tier) + hist_cases(tier) + dyn_cases(tier) + ctx_cases(tier)
            + starts_cases(tier) + steps_cases(tier) + coupling_cases(tier)
            + calls_cases(tier))


# ----------------------------------------------------------------------------
def _worst_final(infos):
    """Largest admissible final-level analytic error relative to the initial amplitude."""
    w = {"optical": 0.0, "intersite": 0.0, "population": 0.0}
    for inf in infos:
        if not (inf["analytic"] and inf["errs"]):
            continue
        for g in w:
            if inf["admissible"][g] and inf["errs"][g]:
                a = inf["amp"][g] if inf["amp"][g] > 0 else 1.0
                w[g] = max(w[g], inf["errs"][g][-1] / a)
    return w


def run(run):
    run.rule = ("index: full product (bath type x construction path x K baths x depth), "
                "non-trivial = K>=2 and depth>=2; hist: full product (open system x every "
                "ordered pair and triple of depths of the alphabet x every accessor word over "
                "{get_KTHierarchy, get_KTHierarchyPropagator}) requested from ONE system "
                "object, every returned object checked against the requested depth (index "
                "oracles; on the propagation sub-product also all N^2 spanning states against "
                "a directly constructed hierarchy), non-trivial = at least two different "
                "depths in the history (and the direct references of these depths differ by "
                "more than 1e-7 = 1000 x class R); dyn: full product (system x Hamiltonian class {real, complex "
                "Hermitian} x bath x path x "
                "RWA reference x time step) x every member of the N^2 spanning set of valid "
                "initial states x every depth 0..Dmax (a fresh hierarchy+propagator per "
                "propagation); non-trivial = initial state is a superposition, or an excited "
                "site population of a coupled system, AND the propagated state moved by more "
                "than 1e-6 from the initial one; ctx: full product (system x construction path "
                "x units context of (hierarchy built, propagator built) in {outside, inside "
                "energy_units(u)}^2 minus (outside, outside); the one-call accessor: both "
                "inside) x every spanning state x depths, oracles and non-triviality of dyn "
                "plus class R equality with the construction outside; calls: every history of "
                "propagate calls (option x initial state) on ONE propagator object of products "
                "P1 (length <= 2, all spanning states in every call) and P2 (option words up "
                "to Lmax, earlier calls on the generic state, last call on every spanning "
                "state); every call returning a propagated density matrix is compared with a "
                "fresh propagator; non-trivial = a checked call follows an earlier call and "
                "its fresh reference moves by more than 1e-6; every returned evolution is "
                "held and re-read after every later call of its history; starts: full "
                "product (axis start t0 != 0 of the alphabet x system x construction path x "
                "time step) x every spanning state x depths, oracles and non-triviality of "
                "dyn on the elapsed time plus class R equality with the axis starting at "
                "zero; steps: full product (ratio of the step of the propagation axis to the "
                "step of the axis the bath correlation functions were defined on x system x "
                "construction path with a separately constructed propagator x propagation "
                "axis) x every spanning state x depths, oracles and non-triviality of dyn at "
                "the propagator's own times plus class R equality with the bath defined on the "
                "propagation axis; coupling: full product (system x coupling class of the alphabet x "
                "{given strength, zero}) x every spanning state x depths, oracles and "
                "non-triviality of dyn with the exact solution of the commuting model")
    run.assumptions = [
        "reference models: mc/refmodels/hierarchy_index.py (compositions, neighbour tables), "
        "lineshape.py (g(t) of the high-temperature overdamped Brownian oscillator), "
        "closed_rwa.py (expm in the rotating frame + Taylor-%d truncation bound)" % TAYLOR_ORDER,
        "H and the rotating-wave reference are read from the Hamiltonian object handed to the "
        "hierarchy (they are its inputs); bath parameters come from the case specification",
        "analytic clause only for the correlation-function type whose g(t) the hierarchy "
        "represents exactly (OverdampedBrownian-HighTemperature); a guard compares the attached "
        "C(t) samples with lam(2kT - i/tau)exp(-t/tau) (1e-5 relative: unit constants)",
        "monotone convergence is demanded only above %.0e (rounding floor)" % MONO_FLOOR,
        "deep/fast sub-product: once the truncation error of the hierarchy is below the "
        "time-discretisation error of the Taylor-%d step (observed <= 8.1e-8 dt^4, independent "
        "of the depth) the error sequence is flat up to that error; monotone convergence is "
        "demanded above %g dt^4 there.  Depths with dt * D * max(1/tau) > %g are outside "
        "the alphabet: the explicit Taylor-%d step is unstable for dt*Gamma > 2.785 (the "
        "unchanged tree diverges there); the choice of a resolving time step is the caller's"
        % (TAYLOR_ORDER, DEEP_FLOOR_C, NU_MAX, TAYLOR_ORDER),
        "every propagation runs on a freshly built hierarchy (isolation from C15); units are "
        "reset after Aggregate.build (isolation from C05)",
        "hist: the reference of a request for depth d is KTHierarchy(ham, sbi, d) + "
        "KTHierarchyPropagator on a Hamiltonian and system-bath interaction assembled by hand "
        "from the case specification (no open-system object), same time axis and Taylor order; "
        "agreement is demanded to class R",
        "complex Hamiltonian class: only through direct construction (the aggregate builder "
        "accepts real couplings); clauses with a reference are closed-system (expm of the "
        "complex H), trace and Hermiticity; the harness verifies that the Hamiltonian object "
        "holds the complex matrix it was given",
        "ctx: the units-context dimension covers the CONSTRUCTION steps only (KTHierarchy / "
        "get_KTHierarchy, KTHierarchyPropagator / get_KTHierarchyPropagator).  Calling "
        "propagate() itself inside energy_units(u) is NOT claimed: on the unchanged tree it is "
        "not sound for any construction (Hamiltonian.data is units-managed, so H - HOmega "
        "mixes u numbers with internal ones and the run diverges); the property speaks about "
        "the propagated state, not about the units that are current during the call.  The "
        "system (Hamiltonian, baths, aggregate) is always assembled before, outside the "
        "varied steps; units are reset by the harness after every step (isolation from C05)",
        "starts: the initial state handed to propagate() is the state at the first point of "
        "the time axis; the stored evolution at point k is the state after the elapsed time "
        "k*dt.  The bath guard compares the attached C(t) samples on the absolute times of "
        "the axis (that is where the library samples them); the hierarchy uses only the "
        "parameters",
        "steps: KTHierarchyPropagator(timeaxis, hierarchy) integrates on, and labels its "
        "result with, the time axis it is given; the bath enters the hierarchy only through "
        "its parameters (reorganisation energy, correlation time, temperature), so the axis "
        "the correlation functions were tabulated on (0 .. %g x the propagated interval, its "
        "own step) has no influence on the dynamics.  The bath guard compares the attached "
        "C(t) samples on the times of the BATH axis.  The one-call accessor "
        "get_KTHierarchyPropagator always uses the bath axis and is not in this sub-product"
        % BATH_SPAN,
        "coupling: operators are real symmetric matrices (SystemBathInteraction stores real "
        "operators), handed over through SystemBathInteraction(list of Operator, "
        "CorrelationFunctionMatrix) - direct construction only (the aggregate builder makes "
        "site projectors in site order; vibronic aggregates, whose builder-made operators "
        "are block projectors, are not in the alphabet: get_KTHierarchy hard-codes the "
        "rotating-wave blocks [0, 1], which is not a slow frame for them).  The analytic "
        "clause is applied iff H - Omega and all V_k commute pairwise (checked numerically on "
        "the Hamiltonian handed to the hierarchy); its reference is the exact second-cumulant "
        "solution in the joint eigenbasis, mc/refmodels/commuting_dephasing.py",
        "calls: what propagate(rho, free_hierarchy=True) returns is not claimed (kernel mode, "
        "not a propagated reduced density matrix); such calls only act as earlier history.  "
        "Histories containing them need level 1 to exist: depth >= 1 everywhere in this "
        "section.  report_hierarchy=True is an ordinary propagation that also stores ADO "
        "traces; its returned evolution is checked like an ordinary one.  The analytic "
        "clause is the final-level tolerance at depth %d (calibration depth of the quick "
        "tier) on time axes not longer than the calibrated ones" % CALLS_ANALYTIC_DEPTH]
    q = run.tier == "quick"
    run.bounds = {
        "index": {"baths": "1..4" if q else "1..5", "depth": "0..5" if q else "0..7 (K=5: 0..6)",
                  "paths": ["direct", "agg"], "ftypes": [HT] if q else [HT, OB]},
        "hist": {"systems (kind, baths, depth alphabet 0..max)":
                     [list(x) for x in HIST_SPACE[run.tier][0]],
                 "history length": "2 and 3 (all ordered tuples, repeats included)",
                 "accessor words": "all of {h,p}^length",
                 "propagation sub-product {history length: alphabet 0..max}":
                     {"%s K=%d" % k: {str(l): m for l, m in v.items()}
                      for k, v in HIST_SPACE[run.tier][1].items()},
                 "time": "%d x %g fs" % (HIST_NT, HIST_DT)},
        "dyn": {"depths": "0..5" if q else "0..6",
                "hamiltonian class": "real; complex Hermitian couplings J exp(i phi), phi in "
                                     + ("{30, 90} deg" if q else "{30, 90, 120} deg") +
                                     ": dimer, ring of three (flux 3 phi)" +
                                     ("" if q else ", open chain of three"),
                "systems": "monomer; dimers gap {0,200} x J {0,100}" +
                           ("" if q else "; trimers gaps (0,200,-100) x J {0,100}"),
                "baths(reorg,cortime,T)": "0; (30,50,300); mixed per-site" if q else
                "0; (30,50,300); (60,50,300); (30,30,300); (30,50,77); mixed per-site; "
                "full OB type (trace/Hermiticity only)",
                "time": "150 x 1 fs" if q else "200 x 1 fs, 100 x 2 fs",
                "deep/fast sub-product": (
                    "monomer lambda 60 x tau {10,30} x (60 x 1 fs, 30 x 2 fs) x depths "
                    "{0,4,8,12,16}; coupled dimer lambda 0, tau 10 x (20 x 1 fs, 10 x 2 fs) x "
                    "depths {0,6,12}" if q else
                    "monomer lambda {30,60} x tau {10,20,30} x (150 x 1, 75 x 2, 50 x 3 fs) x "
                    "2 paths x depths {0,2,..,10,11,12,14,16,20}; dimers J {0,100} x baths "
                    "{(0,10),(60,10),(60,30),mixed} x (60 x 1, 30 x 2 fs) x depths 0..12 step "
                    "2; coupled dimer lambda 0 depths {0,11,16}; coupled trimer lambda 0 "
                    "depths {0,5,11}") + "; depths with dt*D*max(1/tau) > %g excluded" % NU_MAX,
                "initial states": "all N^2 members of the spanning set"},
        "ctx": {"units": CTX_UNITS[run.tier],
                "contexts (hierarchy built, propagator built)":
                    {k: [[u["h"], u["p"]] for u in v] for k, v in _ctx_combos(run.tier).items()},
                "propagate called": "outside any context (inside: not claimed)",
                "systems": "coupled dimer lambda=0; monomer with ground state off zero; "
                           "uncoupled dimer with two different baths; coupled open dimer with "
                           "ground state off zero" if q else
                           "monomers e0 {0,300} x lambda {0,30}; dimers gap {0,200} x J {0,100} "
                           "x baths {0, 30, mixed}; dimers with ground state off zero; coupled "
                           "trimer x lambda {0,30}",
                "initial states": "all N^2 members of the spanning set"},
        "starts": {"axis starts": AXIS_STARTS[run.tier],
                   "systems": "monomer lambda 30 (agg); coupled dimer lambda 0 (direct); "
                              "uncoupled dimer, two different baths (agg); coupled open dimer "
                              "(agg-h)" if q else
                              "monomers e0 {0,300} lambda 30; dimers: coupled lambda {0,30}, "
                              "uncoupled mixed baths; x paths {agg, direct} x (100 x 1 fs, "
                              "50 x 2 fs); agg-h; per-site rotating-wave reference; trimers: "
                              "chain lambda {0,30}, complex ring, uncoupled mixed baths",
                   "initial states": "all N^2 members of the spanning set"},
        "steps": {"step ratios (propagation axis / bath axis)": STEP_RATIOS[run.tier],
                  "bath axis": "TimeAxis(0, %g x span / bath step, bath step)" % BATH_SPAN,
                  "systems": "monomer lambda 30 (direct, 50 x 2 fs); coupled dimer lambda 0 "
                             "(direct, 50 x 2 fs); uncoupled dimer, two different baths (agg-h, "
                             "30 x 2 fs)" if q else
                             "paths {agg-h, direct} x (100 x 1 fs, 50 x 2 fs) x {monomer lambda "
                             "30; coupled dimer lambda 0; uncoupled dimer mixed baths}; coupled "
                             "open dimer; ground state off zero; per-site rotating-wave "
                             "reference; trimers lambda 0: chain, complex ring",
                  "initial states": "all N^2 members of the spanning set"},
        "coupling": {"classes": {"%d site(s)" % k: [c for c, _ in coupling_alphabet(k)]
                                 for k in (1, 2, 3)},
                     "quick tier leaves to thorough": ["two-baths-on-one-site (dimer)",
                                                       "baths-in-cyclic-site-order"] if q else [],
                     "systems": "monomer; dimer gap 200 x J {0, 100 (solvable classes, reverse "
                                "order, site exchange)}; uncoupled trimer" if q else
                                "monomer; dimer gap 200 x J {0,100}; trimer J {0,100}",
                     "coupling strength": "as given; zero (closed system) for " +
                                          ("reverse order and site exchange" if q else
                                           "every class on the coupled systems"),
                     "initial states": "all N^2 members of the spanning set"},
        "calls": {"options": {k: CALL_OPTS[k][0] for k in _calls_space(run.tier)[0]},
                  "systems (sites, path, depth, nt x dt, P1 max length, P2 lengths)":
                      [[len(x[0]), x[3], x[4], "%d x %g" % (x[5], x[6]), x[7], list(x[8])]
                       for x in _calls_space(run.tier)[1]],
                  "states": "P1: N^2 spanning states in every call; P2: generic state in the "
                            "earlier calls, N^2 spanning states in the last",
                  "held results": "every evolution returned by a checked call, re-read after "
                                  "every later call of the history"},
        "tolerances": {"R": RTOL, "T": "2 x Taylor-%d bound + R" % TAYLOR_ORDER,
                       "Q_optical": TOL_OPTICAL, "Q_intersite": TOL_INTERSITE,
                       "Q_population": TOL_POPULATION, "Q_admissible_kappa_max": KAPPA_MAX,
                       "Q_deep_monotone_floor": "%g * dt^4" % DEEP_FLOOR_C,
                       "deep_resolution_number_max": NU_MAX}}
    ic = index_cases(run.tier)
    dc = dyn_cases(run.tier)
    run_grid(run, ic, eval_case, section="index")
    hc = hist_cases(run.tier)
    # propagating cases first (heaviest) for load balance; the evaluated SET is the product
    horder = sorted(range(len(hc)), key=lambda i: (not hc[i]["prop"], -hc[i]["K"]))
    hinfos = run_grid(run, [hc[i] for i in horder], eval_case, section="hist")
    hp = [i for i in hinfos if i.get("prop")]
    run.note(history={"cases": len(hinfos), "with_descent": sum(1 for i in hinfos
                                                                 if i["descending"]),
                      "propagating_cases": len(hp),
                      "worst_deviation_from_direct_construction":
                          max([i["worst"] for i in hp] or [0.0]),
                      "smallest_difference_between_references_of_two_depths":
                          min([i["distinguish"] for i in hp if i["distinguish"] is not None]
                              or [None], key=lambda x: (x is None, x))})
    # heaviest cases (most sites) first inside the pool for load balance; the evaluated
    # SET is the complete product either way
    dc = rotate(dc, run.seed)
    order = sorted(range(len(dc)), key=lambda i: -len(dc[i]["energies"]))
    infos = run_grid(run, [dc[i] for i in order], eval_case, section="dyn", chunksize=1)
    w = {"trace": 0.0, "herm": 0.0, "closed": 0.0, "closed_ratio": 0.0}
    wa = {"optical": 0.0, "intersite": 0.0, "population": 0.0}
    wa_inadm = {"optical": 0.0, "intersite": 0.0}
    n_inadm = 0
    by_dmax = {}
    nan, nskip = 0, {}
    for inf in infos:
        if inf.get("sec") != "dyn":
            continue
        for k in w:
            w[k] = max(w[k], inf["worst"][k])
        if inf["analytic"] and inf["errs"]:
            nan += 1
            for g in wa:
                a = inf["amp"][g] if inf["amp"][g] > 0 else 1.0
                if inf["admissible"][g]:
                    wa[g] = max(wa[g], inf["errs"][g][-1] / a)
                    if inf["amp"][g] > 0:
                        k = "%s@Dmax=%d" % (g, inf["dmax"])
                        by_dmax[k] = max(by_dmax.get(k, 0.0), inf["errs"][g][-1] / a)
                else:
                    wa_inadm[g] = max(wa_inadm[g], inf["errs"][g][-1] / a)
                    n_inadm += 1
        if inf.get("skipped"):
            nskip[inf["skipped"]] = nskip.get(inf["skipped"], 0) + 1
    dinf = [i for i in infos if i.get("sec") == "dyn" and i.get("deep")]
    run.note(deep={
        "cases": len(dinf),
        "cases_with_resolution_number_above_1": sum(1 for i in dinf if i["nu_max"] > 1.0),
        "largest_resolution_number": max([i["nu_max"] for i in dinf] or [0.0]),
        "analytic_cases": sum(1 for i in dinf if i["analytic"] and i["errs"]),
        "closed_system_cases": sum(1 for i in dinf if all(l == 0.0 for l in i["lam"])),
        "worst_rise_over_dt4 (error that exceeded its predecessor; floor %g)" % DEEP_FLOOR_C:
            max([i["worst_rise"] / i["dt"] ** 4 for i in dinf] or [0.0])})
    # ---- units context of the construction steps -------------------------------------
    xc = ctx_cases(run.tier)
    order = sorted(range(len(xc)), key=lambda i: -(len(xc[i]["energies"]) * 10
                                                   + max(xc[i]["depths"])))
    xinfos = run_grid(run, [xc[i] for i in order], eval_case, section="ctx", chunksize=1)
    run.note(units_context={
        "cases": len(xinfos),
        "worst_deviation_from_construction_outside": max([i["worst_ctx"] for i in xinfos]
                                                         or [0.0]),
        "closed_system_fraction_of_bound": max([i["worst"]["closed_ratio"] for i in xinfos]
                                               or [0.0]),
        "analytic_cases": sum(1 for i in xinfos if i["analytic"] and i["errs"]),
        "hierarchy_parameter_root_cause_cases": sum(1 for i in xinfos if i["ctx_root"])})
    # ---- time axes that do not start at zero ------------------------------------------
    sc = starts_cases(run.tier)
    order = sorted(range(len(sc)), key=lambda i: -(len(sc[i]["energies"]) * 10
                                                   + max(sc[i]["depths"])))
    sinfos = run_grid(run, [sc[i] for i in order], eval_case, section="starts", chunksize=1)
    run.note(axis_starts={
        "cases": len(sinfos), "starts": AXIS_STARTS[run.tier],
        "worst_deviation_from_axis_starting_at_zero": max([i["worst_t0"] for i in sinfos]
                                                          or [0.0]),
        "closed_system_cases": sum(1 for i in sinfos if all(l == 0.0 for l in i["lam"])),
        "closed_system_fraction_of_bound": max([i["worst"]["closed_ratio"] for i in sinfos]
                                               or [0.0]),
        "analytic_cases": sum(1 for i in sinfos if i["analytic"] and i["errs"]),
        "analytic_rel_error_at_Dmax": _worst_final(sinfos)})
    # ---- the propagator's own time axis is not the axis of the bath ---------------------
    tc = steps_cases(run.tier)
    order = sorted(range(len(tc)), key=lambda i: -(len(tc[i]["energies"]) * 10
                                                   + max(tc[i]["depths"])))
    tinfos = run_grid(run, [tc[i] for i in order], eval_case, section="steps", chunksize=1)
    run.note(propagation_axis_vs_bath_axis={
        "cases": len(tinfos), "step_ratios": sorted(set(i["step_ratio"] for i in tinfos)),
        "worst_deviation_from_bath_defined_on_the_propagation_axis":
            max([i["worst_bax"] for i in tinfos] or [0.0]),
        "closed_system_cases": sum(1 for i in tinfos if all(l == 0.0 for l in i["lam"])),
        "closed_system_fraction_of_bound": max([i["worst"]["closed_ratio"] for i in tinfos]
                                               or [0.0]),
        "analytic_cases": sum(1 for i in tinfos if i["analytic"] and i["errs"]),
        "analytic_rel_error_at_Dmax": _worst_final(tinfos)})
    # ---- system-bath coupling operators other than the site projectors in site order ---
    kc = coupling_cases(run.tier)
    order = sorted(range(len(kc)), key=lambda i: -(len(kc[i]["energies"]) * 10
                                                   + len(kc[i]["bath"]) * max(kc[i]["depths"])))
    kinfos = run_grid(run, [kc[i] for i in order], eval_case, section="coupling", chunksize=1)
    run.note(coupling_operators={
        "cases": len(kinfos),
        "classes": sorted(set(i["coupling"] for i in kinfos)),
        "baths_vs_sites": sorted(set("%d baths / %s" % (i["nbath"], i["sys"].split("/")[0])
                                     for i in kinfos)),
        "exactly_solvable_cases": sum(1 for i in kinfos if i["solvable"]),
        "analytic_cases": sum(1 for i in kinfos if i["analytic"] and i["errs"]),
        "analytic_rel_error_at_Dmax": _worst_final(kinfos),
        "analytic_rel_error_at_Dmax_by_class": {
            c: _worst_final([i for i in kinfos if i["coupling"] == c])
            for c in sorted(set(i["coupling"] for i in kinfos))},
        "analytic_final_level_not_applied_kappa_gt_max": sum(
            1 for i in kinfos if i["analytic"] and i["errs"]
            and not all(i["admissible"].values())),
        "closed_system_fraction_of_bound": max([i["worst"]["closed_ratio"] for i in kinfos]
                                               or [0.0])})
    # ---- call histories on one propagator --------------------------------------------
    cinfos = run_grid(run, calls_cases(run.tier), eval_case, section="calls")
    run.note(call_histories={
        "cases": len(cinfos),
        "checked_calls": sum(i["checked"] for i in cinfos),
        "checked_calls_after_an_earlier_call": sum(i["checked_after_earlier_call"]
                                                   for i in cinfos),
        "held_earlier_results_compared_after_a_later_call": sum(i["held_checks"]
                                                                for i in cinfos),
        "of_these_later_call_on_another_initial_state": sum(i["held_checks_other_state"]
                                                            for i in cinfos),
        "cases_with_free_hierarchy_call_before_the_last": sum(1 for i in cinfos
                                                              if i["after_free"]),
        "worst_deviation_from_fresh_propagator": max([i["worst"]["fresh"] for i in cinfos]
                                                     or [0.0]),
        "closed_system_fraction_of_bound": max([i["worst"]["closed_ratio"] for i in cinfos]
                                               or [0.0]),
        "analytic_rel_error_at_depth_%d" % CALLS_ANALYTIC_DEPTH:
            max([i["worst"]["analytic"] for i in cinfos] or [0.0])})
    run.note(worst_deviation={"trace": w["trace"], "hermiticity": w["herm"],
                              "closed_system_abs": w["closed"],
                              "closed_system_fraction_of_bound": w["closed_ratio"],
                              "analytic_rel_error_at_Dmax": wa,
                              "analytic_rel_error_at_Dmax_by_group": by_dmax,
                              "analytic_rel_error_at_Dmax_inadmissible_kappa": wa_inadm},
             analytic_cases=nan, analytic_skipped=nskip,
             analytic_final_level_not_applied_kappa_gt_max=n_inadm)
