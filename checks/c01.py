"""C01 Relaxation generators preserve trace and Hermiticity.

E-grid, three sections, all complete constrained Cartesian products (nothing sampled):

* section "bath": size x site-energy pattern x coupling pattern x bath (type, reorganisation
  energy, correlation time, temperature, same / site-dependent) x tensor configuration.
  Tensor configurations = every relaxation theory reachable through
  OpenSystem.get_RelaxationTensor (standard_Redfield, standard_Foerster,
  combined_RedfieldFoerster) with the full product of its options (time_dependent,
  secular_relaxation, as_operators, relaxation_cutoff_time, coupling_cutoff) plus every
  direct constructor (Redfield, TDRedfield, Foerster(pure_dephasing), TDFoerster,
  RedfieldFoerster, TDRedfieldFoerster) with the product of its own options.
* section "lindblad": size x energy pattern x coupling pattern x every set of <= 2 projectors
  |i><j| (all d^2 projectors, diagonal ones included); inside one case every assignment of the
  rates {0.01, 0.002} to the set and every form (LindbladForm tensor form, operator form,
  OpenSystem "Lindblad_form" / "electronic_Lindblad", secular or not) is built.
* section "bare": systems made by hand with the constructors of quantarhei.qm (Hamiltonian from a
  matrix, SystemBathInteraction from site projectors |i><i| on ALL states and a
  CorrelationFunctionMatrix) that have NO separate ground state: the first state carries a
  site energy, a bath and resonance couplings like every other state (the 2x2 [[e,J],[J,e']]
  systems of the package's unit tests).  number of states x energy pattern x coupling pattern
  (nearest neighbour / all-to-all) x bath x bath mode x every direct constructor with the
  product of its options; the same reads, identities and secularisations as section "bath".

* section "requests" (history on ONE built system): system x ordered pair (first request, second
  request) of OpenSystem configurations (bath theories with their options; the two Lindblad
  theories x secular for every projector set of the bound) x recalculate in {True, False} of the
  second request (thorough: of both) x route of the second request (get_RelaxationTensor;
  thorough also get_ReducedDensityMatrixPropagator -> its RelaxationTensor).  The tensor the
  SECOND request returns has the properties of the options of THAT request: identities (site,
  eigenbasis_of(H)), secular clause against a non-secular twin when it asked for secular
  relaxation, kind and elements of what a single request with the same options gives on a
  fresh system (class R); the tensor of the first request is left as it was.

What is done with every tensor that can be built (the REAL objects, real basis contexts):
  action     every time independent tensor, tensor form AND operator form (Redfield, Lindblad,
             Foerster, combined): apply() on the complete matrix-unit basis |c><d| (created,
             applied and read inside the context), copy=True and copy=False, in the contexts
             {site, eb(H), eb(Xc)(, eb(Xr))}: R[a,b,c,d] := apply(|c><d|)[a,b] satisfies both
             identities and equals the tensor of the same object read in the same context
             (an operator form is converted there with convert_2_tensor after its apply()
             calls) (class R).
  reads      data outside any context, inside eigenbasis_of(H), nested inside
             eigenbasis_of(H) > eigenbasis_of(Xr), after leaving, inside eigenbasis_of(Xr)
             (real symmetric operator unrelated to H) and eigenbasis_of(Xc) (complex Hermitian);
             operator forms are converted with convert_2_tensor in each of the four
             contexts (fresh object each time) and read there and after leaving.
  identities on EVERY element and EVERY time index of every read (class R, 1e-10 * max|R|):
             sum_a R[a,a,c,d] = 0 ; conj(R[a,b,c,d]) = R[b,a,d,c].
  secular    in each of the contexts {site, eb(H), eb(Xr), eb(Xc)} every implementation
             [secularize(legacy=True), secularize(legacy=False) -> Secular.secularize ->
             _secularize_data, _secularize_data() itself; for TDRedfieldRelaxationTensor its
             own override secularize() and Secular.secularize] is applied to an equal object;
             oracle: kept elements [a,a,b,b], [a,b,a,b] bit-identical to the pre-secular
             copy, every other element exactly 0, both identities again (only demanded when
             the pre-secular tensor satisfied them: "keeps").  Finally the real object is
             secularised with its default secularize() inside eigenbasis_of(H), compared, and
             read again after leaving the context.  Tensors that OpenSystem returned with
             secular_relaxation=True are compared (class R, they went through basis
             transformations) with a twin built with secular_relaxation=False, in the basis
             in which OpenSystem secularised.

Unbuildable option combinations (the constructor raises for a configuration the package
does not support) are not identity violations: they are matched against an explicit list
(_unbuildable), counted and listed in the evidence (coverage.unbuildable).  Any other
exception of the library is a crash violation (reported by the engine).

nontrivial = the tensor could be built and max|R| > 0.
"""
import contextlib
import copy
import inspect
import itertools

import numpy

from mc import isolation, systems
from mc.explore import run_grid
from mc.refmodels import tensor_identities as TI

LEVEL = "model_checking"

RTOL = 1.0e-10          # class R
NT, DT = 100, 1.0       # time axis of the bath correlation functions / TD tensors
E0 = 12000.0
CCUT_CM = 45.0          # coupling cut-off: between the |J| values 25/40 and 50/60
RATES = (0.01, 0.002)   # Lindblad rates (1/fs)

READ_CTX = ("ebH", "ebH>ebXr", "ebXr", "ebXc")
SEC_CTX = ("ebH", "ebXr", "ebXc", "site")
OPS_CTX = {"thorough": ("site", "ebH", "ebXr", "ebXc"), "quick": ("site", "ebH", "ebXc")}


# --------------------------------------------------------------------------
# systems
# --------------------------------------------------------------------------
def _energies(n, pat):
    if pat == "degenerate":
        return [E0] * n
    e = [E0 + 100.0 * i + 13.0 * i * i for i in range(n)]
    if pat == "neardeg" and n >= 2:
        e[-1] = e[-2] + 0.5
    return e


def _J(n, pat):
    if pat == "zero" or n < 2:
        return [[0.0] * n for _ in range(n)]
    if pat == "nn":
        return systems.chain_J(n, 50.0)
    return systems.full_J(n, [60.0, -40.0, 25.0])


def _bath(sysd):
    b = dict(sysd["bath"])
    if sysd.get("bathmode", "same") == "same":
        return b
    return [dict(b, reorg=b["reorg"] * (1.0 + 0.5 * i)) for i in range(sysd["n"])]


def _system(sysd, with_bath=True):
    """Fresh real objects for every build (nothing is shared between builds)."""
    isolation.reset_manager()
    ta = systems.time_axis(sysd.get("nt", NT), DT)
    n = sysd["n"]
    agg = systems.aggregate(_energies(n, sysd["en"]), _J(n, sysd["J"]),
                            _bath(sysd) if with_bath else None, ta if with_bath else None)
    return ta, agg


def _bare_system(sysd):
    """System class "bare": a hand-made Hamiltonian WITHOUT a separate ground state (every
    state, the first one included, carries a site energy, is resonance coupled according to
    the coupling pattern and has its own bath: site projectors |i><i| on ALL states) and a
    SystemBathInteraction made with the constructors of quantarhei.qm, the way the package's
    own unit tests do it.  Returns fresh (time axis, Hamiltonian, sbi)."""
    isolation.reset_manager()
    qr = isolation.qr()
    from quantarhei.qm import Operator, SystemBathInteraction
    from quantarhei.qm.corfunctions import CorrelationFunctionMatrix
    ta = systems.time_axis(NT, DT)
    n = sysd["n"]
    h = numpy.array(_J(n, sysd["J"]), dtype=float)
    for i, e in enumerate(_energies(n, sysd["en"])):
        h[i, i] = e
    with qr.energy_units("1/cm"):
        ham = qr.Hamiltonian(data=h)
    bath = _bath(sysd)
    cfm = CorrelationFunctionMatrix(ta, n, n)
    ops = []
    cf = None
    for i in range(n):
        if cf is None or isinstance(bath, list):
            cf = systems.corfce(ta, bath[i] if isinstance(bath, list) else bath)
        cfm.set_correlation_function(cf, [(i, i)], i + 1)
        k = numpy.zeros((n, n))
        k[i, i] = 1.0
        ops.append(Operator(data=k))
    return ta, ham, SystemBathInteraction(ops, cfm)


def _other(dim, kind):
    """Operators unrelated to the Hamiltonian whose eigenbases are used for reading."""
    from quantarhei.qm import SelfAdjointOperator
    X = numpy.array([[float(((i + 1) * (j + 2)) % 5) + 0.3 * (i + j) for j in range(dim)]
                     for i in range(dim)])
    X = X + X.T
    if kind == "ebXc":
        A = numpy.array([[0.7 * (i - j) for j in range(dim)] for i in range(dim)])
        X = X + 1j * A
    return SelfAdjointOperator(data=X)


@contextlib.contextmanager
def _ctx(name, ham):
    qr = isolation.qr()
    with contextlib.ExitStack() as st:
        for part in name.split(">"):
            if part == "site":
                continue
            op = ham if part == "ebH" else _other(ham.dim, part)
            st.enter_context(qr.eigenbasis_of(op))
        yield


def _ccut_internal():
    qr = isolation.qr()
    from quantarhei.core.managers import Manager
    with qr.energy_units("1/cm"):
        return float(Manager().convert_energy_2_internal_u(CCUT_CM))


# --------------------------------------------------------------------------
# building one tensor
# --------------------------------------------------------------------------
def _variant(cfg):
    if cfg["via"] == "os":
        s = "os:%s:td=%d:sec=%d:ops=%d:cut=%d:ccut=%d" % (
            cfg["theory"], cfg.get("td", 0), cfg.get("sec", 0), cfg.get("ops", 0),
            cfg.get("cutoff", 0), cfg.get("ccut", 0))
    else:
        s = "direct:%s:ops=%d:pd=%d:cut=%d:ccut=%d" % (
            cfg["cls"], cfg.get("ops", 0), cfg.get("pd", 0), cfg.get("cutoff", 0),
            cfg.get("ccut", 0))
    return s


def _lindblad_sbi(dim, cfg):
    from quantarhei.qm import Operator, SystemBathInteraction
    ops = []
    for (i, j) in cfg["proj"]:
        k = Operator(dim=dim, real=True)
        k.data[i, j] = 1.0
        ops.append(k)
    return SystemBathInteraction(sys_operators=ops, rates=tuple(cfg["rates"]))


def _build(sysd, cfg):
    """Build the tensor of one configuration on a fresh system.  Returns (T, ham)."""
    qr = isolation.qr()
    import quantarhei.qm as qm
    lind = "proj" in cfg
    bare = bool(sysd.get("bare"))
    if bare:
        if lind or cfg["via"] != "direct":
            raise isolation.HarnessError("bare systems are built with direct constructors only")
        ta, ham, bare_sbi = _bare_system(sysd)
    else:
        ta, agg = _system(sysd, with_bath=not lind)
        ham = agg.get_Hamiltonian()
    cutoff = 0.5 * sysd.get("nt", NT) * DT if cfg.get("cutoff") else None
    ccut = _ccut_internal() if cfg.get("ccut") else None
    if lind:
        sbi = _lindblad_sbi(ham.dim, cfg)
        if cfg["via"] == "os":
            agg.set_SystemBathInteraction(sbi)
            T, _h = agg.get_RelaxationTensor(ta, relaxation_theory=cfg["theory"],
                                             secular_relaxation=bool(cfg.get("sec")))
        else:
            T = qm.LindbladForm(ham, sbi, as_operators=bool(cfg.get("ops")))
        return T, ham
    sbi = bare_sbi if bare else agg.get_SystemBathInteraction()
    if cfg["via"] == "os":
        T, _h = agg.get_RelaxationTensor(
            ta, relaxation_theory=cfg["theory"], time_dependent=bool(cfg.get("td")),
            secular_relaxation=bool(cfg.get("sec")), relaxation_cutoff_time=cutoff,
            coupling_cutoff=ccut, as_operators=bool(cfg.get("ops")))
        return T, ham
    cls = getattr(qm, cfg["cls"])
    name = cfg["cls"]
    if name in ("RedfieldRelaxationTensor", "TDRedfieldRelaxationTensor"):
        T = cls(ham, sbi, cutoff_time=cutoff, as_operators=bool(cfg.get("ops")))
    elif name == "FoersterRelaxationTensor":
        T = cls(ham, sbi, cutoff_time=cutoff, pure_dephasing=bool(cfg.get("pd")))
    elif name == "TDFoersterRelaxationTensor":
        T = cls(ham, sbi, cutoff_time=cutoff)
    elif name in ("RedfieldFoersterRelaxationTensor", "TDRedfieldFoersterRelaxationTensor"):
        if ccut is None:
            T = cls(ham, sbi, cutoff_time=cutoff)
        else:
            # the sequence of the package's own unit test / OpenSystem
            ham.subtract_cutoff_coupling(ccut)
            ham.protect_basis()
            try:
                with qr.eigenbasis_of(ham):
                    T = cls(ham, sbi, cutoff_time=cutoff, coupling_cutoff=ccut)
            finally:
                ham.unprotect_basis()
                ham.recover_cutoff_coupling()
    else:
        raise isolation.HarnessError("unknown class " + name)
    return T, ham


def _unbuildable(sysd, cfg, exc):
    """Signature of a KNOWN unsupported option combination, else None (-> crash)."""
    msg = str(exc)
    if "proj" in cfg:
        return None
    fam = cfg.get("cls") or cfg.get("theory")
    td_comb = ((cfg["via"] == "os" and fam == "combined_RedfieldFoerster" and cfg.get("td"))
               or fam == "TDRedfieldFoersterRelaxationTensor")
    if (fam == "FoersterRelaxationTensor" and cfg.get("cutoff")
            and isinstance(exc, AttributeError) and "cut_off_time" in msg):
        return "FoersterRelaxationTensor(cutoff_time)/AttributeError:cut_off_time"
    if td_comb and cfg.get("cutoff") and isinstance(exc, ValueError) and "broadcast" in msg:
        return "TD-combined-RedfieldFoerster(cutoff_time)/ValueError:shape"
    if (td_comb and cfg.get("ccut") and sysd["J"] != "zero" and sysd["n"] >= 2
            and isinstance(exc, TypeError) and "_td_reference_implementation" in msg):
        return "TD-combined-RedfieldFoerster(remainder coupling != 0)/TypeError:missing-argument"
    if (cfg["via"] == "os" and fam == "standard_Redfield" and cfg.get("td") and cfg.get("ops")
            and cfg.get("sec") and type(exc) is Exception and "ecularized" in msg):
        return "TD-Redfield(as_operators, secular_relaxation)/refused"
    return None


# --------------------------------------------------------------------------
# oracles
# --------------------------------------------------------------------------
class _Acc:
    def __init__(self):
        self.viol = {}
        self.worst = {"trace": 0.0, "hermiticity": 0.0, "secular-kept": 0.0,
                      "secular-zero": 0.0, "os-secular-kept": 0.0, "os-secular-zero": 0.0,
                      "apply-vs-tensor": 0.0, "second-request-vs-single": 0.0}
        self.n = {"tensors": 0, "reads": 0, "secularisations": 0, "secular_nontrivial": 0,
                  "refused_secular": 0, "elements": 0, "applies": 0, "second_requests": 0}
        self.unbuildable = {}
        self.refused = {}
        self.label = ""
        self.apply_on = True
        self.tier = "thorough"
        self.digest = []

    def add(self, key, what, details=None):
        if key not in self.viol:
            self.viol[key] = (key, what + self.label, details)

    def rel(self, clause, val, sc):
        r = (val / sc) if sc > 0 else (0.0 if val == 0 else float("inf"))
        if r > self.worst[clause]:
            self.worst[clause] = r


def _ids(acc, R, variant, read, site_sig=None, prefix=""):
    """Both identities on every element of R.  Returns (trace ok, hermiticity ok, sigs)."""
    R = numpy.asarray(R)
    acc.n["reads"] += 1
    acc.n["elements"] += int(R.size)
    if not TI.finite(R):
        acc.add("%snonfinite/%s/read=%s" % (prefix, variant, read),
                "tensor contains NaN/inf entries (read %s)" % read, None)
        return False, False, {}
    sc = TI.scale(R)
    tol = RTOL * sc
    Dt = TI.trace_defect(R)
    Dh = TI.hermiticity_defect(R)
    wt, it = TI.worst(Dt)
    wh, ih = TI.worst(Dh)
    sigs = {}
    ok_t, ok_h = wt <= tol, wh <= tol
    if ok_t:
        acc.rel("trace", wt, sc)
    else:
        sig = TI.trace_signature(Dt, tol)
        sigs["trace"] = sig
        idx = TI.first_over(Dt, tol)
        if not (site_sig and site_sig.get("trace")):   # else: consequence of the site read
            acc.add("%strace/%s/read=%s/%s" % (prefix, variant, read, sig),
                "sum_a R[a,a,c,d] != 0: |sum| = %.3g at (t,)c,d = %s, worst %.3g at %s, "
                "max|R| = %.3g, tol %.1e (%s, read %s)"
                % (abs(Dt[tuple(idx)]), idx, wt, it, sc, tol, variant, read),
                {"first": idx, "worst": wt, "scale": sc})
    if ok_h:
        acc.rel("hermiticity", wh, sc)
    else:
        sig = TI.hermiticity_signature(R, Dh, tol)
        sigs["hermiticity"] = sig
        idx = TI.first_over(Dh, tol)
        sw = list(idx)
        sw[-4], sw[-3], sw[-2], sw[-1] = idx[-3], idx[-4], idx[-1], idx[-2]
        if not (site_sig and site_sig.get("hermiticity")):
            acc.add("%shermiticity/%s/read=%s/%s" % (prefix, variant, read, sig),
                "conj(R[a,b,c,d]) != R[b,a,d,c]: first at (t,)a,b,c,d = %s: R = %s, "
                "R[b,a,d,c] = %s; worst |diff| %.3g at %s, max|R| = %.3g, tol %.1e (%s, read %s)"
                % (idx, complex(R[tuple(idx)]), complex(R[tuple(sw)]), wh, ih, sc, tol,
                   variant, read),
                {"first": idx, "worst": wh, "scale": sc})
    return ok_t, ok_h, sigs


def _impls(T):
    from quantarhei.qm.liouvillespace.secular import Secular
    out = []
    params = inspect.signature(type(T).secularize).parameters
    if "legacy" in params:
        out.append(("secularize(legacy=True)", lambda t: t.secularize(legacy=True)))
        out.append(("secularize(legacy=False)", lambda t: t.secularize(legacy=False)))
    else:   # the time-dependent override
        out.append(("td-override.secularize()", lambda t: t.secularize()))
        out.append(("Secular.secularize", lambda t: Secular.secularize(t)))
    out.append(("_secularize_data", lambda t: t._secularize_data()))
    return out


def _apply_secular(acc, obj, impl, f):
    """Run one implementation; True if it ran, False if it refused an operator form."""
    was_ops = bool(obj.as_operators)
    try:
        f(obj)
    except Exception as e:
        sig = None
        if was_ops and type(e) is Exception and "ecularized in an op" in str(e):
            sig = "operator-form/%s/refused:Exception" % impl
        elif (was_ops and isinstance(e, AttributeError) and "_data" in str(e)
              and impl in ("secularize(legacy=False)", "Secular.secularize")):
            # Secular.secularize reads self.data before converting the operator form
            sig = "operator-form/%s/AttributeError:_data" % impl
        if sig is None:
            raise
        acc.n["refused_secular"] += 1
        acc.refused[sig] = acc.refused.get(sig, 0) + 1
        return False
    return True


def _secular_oracle(acc, pre, post, pre_ok, variant, impl, ctx, exact=True):
    """kept / zero / identities for one secularisation."""
    acc.n["secularisations"] += 1
    sc = TI.scale(pre)
    tol = 0.0 if exact else RTOL * sc
    cmp = TI.secular_compare(pre, post, tol)
    kk, kz = ("secular-kept", "secular-zero") if exact else ("os-secular-kept",
                                                            "os-secular-zero")
    tag = "%s/%s/ctx=%s" % (variant, impl, ctx)
    if "shape" in cmp:
        acc.add("secular-shape/" + tag, "secularised tensor changed shape %s" % cmp["shape"])
        return
    if cmp["removed"] > RTOL * sc:
        acc.n["secular_nontrivial"] += 1
    acc.rel(kk, cmp["kept_err"], sc)
    acc.rel(kz, cmp["zero_err"], sc)
    if cmp["kept_idx"] is not None or not numpy.isfinite(cmp["kept_err"]):
        i = cmp["kept_idx"]
        acc.add("%s/%s" % (kk, tag),
                "secularisation changed a population-transfer / coherence-decay element: "
                "first at %s: before %s after %s (worst change %.3g, max|R| %.3g) [%s]"
                % (i, complex(pre[tuple(i)]) if i else None,
                   complex(post[tuple(i)]) if i else None, cmp["kept_err"], sc, tag),
                {"first": i, "err": cmp["kept_err"]})
    if cmp["zero_idx"] is not None or not numpy.isfinite(cmp["zero_err"]):
        i = cmp["zero_idx"]
        acc.add("%s/%s" % (kz, tag),
                "secularisation left a non-secular element non-zero: first at %s = %s "
                "(worst %.3g, max|R| %.3g) [%s]"
                % (i, complex(post[tuple(i)]) if i else None, cmp["zero_err"], sc, tag),
                {"first": i, "err": cmp["zero_err"]})
    # "keeps both identities": demanded for the identities the input satisfied
    if TI.finite(post):
        scp = max(sc, TI.scale(post))
        if pre_ok[0]:
            Dt = TI.trace_defect(post)
            wt, it = TI.worst(Dt)
            acc.rel("trace", wt, scp)
            if wt > RTOL * scp:
                acc.add("secular-trace/%s/%s" % (tag, TI.trace_signature(Dt, RTOL * scp)),
                        "secularised tensor violates sum_a R[a,a,c,d] = 0: %.3g at %s "
                        "(max|R| %.3g) [%s]" % (wt, it, scp, tag), {"worst": wt})
        if pre_ok[1]:
            Dh = TI.hermiticity_defect(post)
            wh, ih = TI.worst(Dh)
            if wh > RTOL * scp:
                acc.add("secular-hermiticity/%s/%s"
                        % (tag, TI.hermiticity_signature(post, Dh, RTOL * scp)),
                        "secularised tensor violates conj(R[a,b,c,d]) = R[b,a,d,c]: %.3g at "
                        "%s (max|R| %.3g) [%s]" % (wh, ih, scp, tag), {"worst": wh})
            else:
                acc.rel("hermiticity", wh, scp)


def _clone(T, data):
    c = copy.copy(T)
    c._data = numpy.array(data, copy=True)
    return c


def _flow_tensor(acc, T, ham, variant, action=True):
    """Reads in every context + every secularisation, for a tensor in tensor form."""
    R0 = numpy.array(T.data, copy=True)
    ok_t, ok_h, site_sig = _ids(acc, R0, variant, "site")
    if action:
        _apply_check(acc, T, ham.dim, variant, "site", lambda: R0)
    sc0 = TI.scale(R0)
    acc.digest.append([variant, list(R0.shape), round(sc0, 12),
                       round(float(numpy.sum(numpy.abs(R0))), 10)])
    for ctx in READ_CTX:
        # objects that are still STORED in the site basis when the context is entered and are
        # secularised there without having been read first (the usual way a user does it:
        # `RT, ham = agg.get_RelaxationTensor(...)` ... `with eigenbasis_of(ham): RT.secularize()`)
        stale = [(impl, f, _clone(T, R0)) for impl, f in _impls(T)] if ctx in SEC_CTX else []
        with _ctx(ctx, ham):
            R = numpy.array(T.data, copy=True)
            okc = _ids(acc, R, variant, ctx, site_sig)
            if action:
                _apply_check(acc, T, ham.dim, variant, ctx, lambda: R)
            if ctx in SEC_CTX:
                _secular_copies(acc, T, R, okc[:2], variant, ctx)
                for impl, f, c in stale:
                    if not _apply_secular(acc, c, impl, f):
                        continue
                    _secular_oracle(acc, R, numpy.array(c.data, copy=True), okc[:2], variant,
                                    impl + "[object-stored-in-site-basis]", ctx, exact=False)
        _ids(acc, T.data, variant, "after-" + ctx, site_sig)
    _secular_copies(acc, T, R0, (ok_t, ok_h), variant, "site")
    # the real object, default call, as OpenSystem does it; then read outside
    with _ctx("ebH", ham):
        pre = numpy.array(T.data, copy=True)
        okp = (TI.worst(TI.trace_defect(pre))[0] <= RTOL * TI.scale(pre),
               TI.worst(TI.hermiticity_defect(pre))[0] <= RTOL * TI.scale(pre))
        T.secularize()
        post = numpy.array(T.data, copy=True)
        _secular_oracle(acc, pre, post, okp, variant, "real-object.secularize()", "ebH")
    if okp[0] and okp[1]:
        _ids(acc, T.data, variant, "site-after-secularize@ebH", prefix="secular-")
    return sc0


def _secular_copies(acc, T, R, ok, variant, ctx):
    for impl, f in _impls(T):
        c = _clone(T, R)
        if not _apply_secular(acc, c, impl, f):
            continue
        _secular_oracle(acc, R, numpy.array(c.data, copy=True), ok, variant, impl, ctx)


def _flow_operators(acc, sysd, cfg, T, ham, variant):
    """Operator form: convert_2_tensor in every context (fresh objects), secularisation
    of the operator form in every context (fresh objects; it converts first)."""
    sc0 = 0.0
    first = True
    for ctx in OPS_CTX[acc.tier]:
        if first:
            B, hamB = T, ham
            first = False
        else:
            B, hamB = _build(sysd, cfg)
        with _ctx(ctx, hamB):
            def converted(B=B):
                B.convert_2_tensor()
                return numpy.array(B.data, copy=True)
            # the operator form acts through apply() first, then the same object is converted
            _apply_check(acc, B, hamB.dim, variant, ctx, converted)
            B.convert_2_tensor()
            if B.as_operators:
                acc.add("convert/%s/still-operator-form" % variant,
                        "convert_2_tensor left as_operators=True")
            pre = numpy.array(B.data, copy=True)
            okp = _ids(acc, pre, variant, "convert@" + ctx)
        if ctx != "site":
            _ids(acc, B.data, variant, "convert@%s>site" % ctx)
        for impl, f in _impls(B):
            Q, hamQ = _build(sysd, cfg)
            with _ctx(ctx, hamQ):
                if not _apply_secular(acc, Q, impl, f):
                    continue
                post = numpy.array(Q.data, copy=True)
            _secular_oracle(acc, pre, post, okp[:2], variant, impl + "[operator-form]", ctx)
        if ctx == "site":
            # the converted object is now an ordinary tensor: complete tensor flow
            sc0 = _flow_tensor(acc, B, hamB, variant + ":converted", action=False)
    return sc0


def _os_secular_twin(acc, sysd, cfg, T, ham, variant):
    """OpenSystem(secular_relaxation=True) against its non-secular twin, in the basis in
    which OpenSystem secularised (class R: both went through basis transformations)."""
    twin_cfg = dict(cfg, sec=0)
    P, _hamP = _build(sysd, twin_cfg)
    lind = "proj" in cfg
    ccut = _ccut_internal() if cfg.get("ccut") else None
    combined = cfg.get("theory") == "combined_RedfieldFoerster"
    if combined:
        ham.subtract_cutoff_coupling(ccut)
    try:
        with _ctx("site" if lind else "ebH", ham):
            if P.as_operators:
                P.convert_2_tensor()
            pre = numpy.array(P.data, copy=True)
            post = numpy.array(T.data, copy=True)
    finally:
        if combined:
            ham.recover_cutoff_coupling()
    sc = TI.scale(pre)
    okp = (TI.worst(TI.trace_defect(pre))[0] <= RTOL * sc,
           TI.worst(TI.hermiticity_defect(pre))[0] <= RTOL * sc)
    _secular_oracle(acc, pre, post, okp, variant, "OpenSystem(secular_relaxation=True)",
                    "site" if lind else "ebH", exact=False)


APPLY_CTX = {"thorough": ("site", "ebH", "ebXr", "ebXc"), "quick": ("site", "ebH", "ebXc")}


def _apply_elements(T, dim, copy_flag):
    """R[a,b,c,d] = (T.apply(|c><d|))[a,b] in the CURRENT basis: the operator |c><d| is created,
    the generator applied through its public apply() and the result read inside the current
    context.  The matrix units are a complete basis of all operators and apply() is linear, so
    what holds for R holds for the action on any operator."""
    from quantarhei.qm import Operator
    R = numpy.zeros((dim,) * 4, dtype=numpy.complex128)
    same = True
    for c in range(dim):
        for d in range(dim):
            E = numpy.zeros((dim, dim), dtype=numpy.complex128)
            E[c, d] = 1.0
            op = Operator(data=E)
            with isolation.quiet():
                res = T.apply(op, copy=copy_flag)
            same = same and ((res is op) == (not copy_flag))
            out = numpy.asarray(res.data)
            if out.shape != (dim, dim):
                return None, same, out.shape
            R[:, :, c, d] = out
    return R, same, None


def _apply_check(acc, T, dim, variant, ctx, tensor_of):
    """ACTION of the generator, called INSIDE the context `ctx`: the object (tensor form or
    operator form, time independent) acts through apply() on the complete matrix-unit basis,
    with and without copying the argument.  The elements R[a,b,c,d] = apply(|c><d|)[a,b] must
    satisfy both identities (class R) and equal the tensor of the same object read in the same
    context: tensor_of() returns it (for an operator form it converts the object first, so all
    apply() calls are made before)."""
    from quantarhei.core.time import TimeDependent
    if isinstance(T, TimeDependent) or not acc.apply_on or ctx not in APPLY_CTX[acc.tier]:
        return
    was_ops = bool(T.as_operators)
    got = []
    for cp in (1, 0):
        R, same, shp = _apply_elements(T, dim, bool(cp))
        acc.n["applies"] += dim * dim
        read = "apply(copy=%d)@%s" % (cp, ctx)
        if R is None:
            acc.add("apply-shape/%s/read=%s" % (variant, read),
                    "apply() returned data of shape %s for a %dx%d operator" % (shp, dim, dim))
            continue
        if not same:
            acc.add("apply-copy-flag/%s/read=%s" % (variant, read),
                    "apply(copy=%s) returned %s" % (bool(cp), "the argument itself" if cp
                                                    else "another object"))
        _ids(acc, R, variant, read, prefix="apply-")
        got.append((cp, R))
    Rt = numpy.asarray(tensor_of())
    for cp, R in got:
        fin = TI.finite(R) and TI.finite(Rt) and R.shape == Rt.shape
        sc = max(TI.scale(Rt), TI.scale(R)) if fin else 0.0
        dev = float(numpy.max(numpy.abs(R - Rt))) if fin else float("inf")
        if dev <= RTOL * sc:
            acc.rel("apply-vs-tensor", dev, sc)
        else:
            i = numpy.unravel_index(int(numpy.argmax(numpy.abs(R - Rt))), R.shape) if fin else None
            acc.add("apply-differs-from-tensor/%s/ctx=%s/copy=%d" % (variant, ctx, cp),
                    "apply() of the %s form differs from the action of the %stensor of the same "
                    "object: apply(|c><d|)[a,b] - R[a,b,c,d] = %.3g at a,b,c,d = %s, max|R| %.3g "
                    "(%s, context %s, copy=%s)"
                    % ("operator" if was_ops else "tensor", "converted " if was_ops else "",
                       dev, [int(x) for x in i] if i is not None else None, sc, variant, ctx,
                       bool(cp)), {"worst": dev, "scale": sc})


def _eval_cfg(acc, sysd, cfg):
    variant = _variant(cfg)
    if sysd.get("bare"):
        variant = "bare-" + variant
    acc.label = ""
    if "proj" in cfg:
        acc.label = " {projectors |i><j| %s, rates %s}" % (list(cfg["proj"]), cfg["rates"])
    try:
        T, ham = _build(sysd, cfg)
    except isolation.HarnessError:
        raise
    except Exception as e:
        sig = _unbuildable(sysd, cfg, e)
        if sig is None:
            raise
        acc.unbuildable[sig] = acc.unbuildable.get(sig, 0) + 1
        acc.digest.append([variant, "unbuildable", sig])
        return None
    acc.n["tensors"] += 1
    if cfg["via"] == "os" and cfg.get("sec") and not T.as_operators:
        _os_secular_twin(acc, sysd, cfg, T, ham, variant)
    # initialize() recalculates the object only for classes which define it (or the
    # _implementation it calls) themselves; TDRedfieldFoerster inherits the time-independent
    # one, and with a coupling cut-off the calculation is tied to the caller's protocol
    # (cut-off subtracted, inside eigenbasis_of) which a bare initialize() does not repeat
    own = set(type(T).__dict__) & {"initialize", "_implementation"}
    if cfg["via"] == "direct" and "proj" not in cfg and own and not cfg.get("ccut") \
            and not T.as_operators:
        _recompute(acc, sysd, cfg, T, variant)
    acc.apply_on = not cfg.get("noapply")
    if T.as_operators:
        return _flow_operators(acc, sysd, cfg, T, ham, variant)
    return _flow_tensor(acc, T, ham, variant)


def _recompute(acc, sysd, cfg, T, variant):
    """HISTORY: the generator calculated a second time on the SAME object (initialize() is the
    public way to (re)calculate a tensor created with initialize=False or after the inputs
    changed).  The recomputed generator must satisfy the identities and, the inputs being the
    same, equal the first one."""
    R0 = numpy.array(T.data, copy=True)
    try:
        T2, _h = _build(sysd, cfg)
        with isolation.quiet():
            T2.initialize()
        R2 = numpy.array(T2.data, copy=True)
    except isolation.HarnessError:
        raise
    except Exception as e:
        acc.add("recomputed-raises/%s/%s" % (variant, type(e).__name__),
                "second initialize() on the same object raised %s: %s"
                % (type(e).__name__, str(e)[:100]), None)
        return
    _ids(acc, R2, variant, "site", prefix="recomputed-")
    sc = TI.scale(R0)
    if R2.shape != R0.shape or float(numpy.max(numpy.abs(R2 - R0))) > RTOL * sc:
        dev = float(numpy.max(numpy.abs(R2 - R0))) if R2.shape == R0.shape else float("inf")
        acc.add("recomputed-differs/%s" % variant,
                "the generator calculated a second time on the same object differs from the first "
                "calculation by %.3g (scale %.3g)" % (dev, sc), None)


# --------------------------------------------------------------------------
# history: a second request on the same built system
# --------------------------------------------------------------------------
NT_REQ = 40             # time axis of the systems of the section "requests"


def _os_request(agg, ta, cfg, rc, api="tensor"):
    """One request to a built system with ALL options of the configuration and the
    `recalculate` flag, through get_RelaxationTensor or through the propagator factory (the
    tensor is then the one the returned propagator works with)."""
    kw = dict(relaxation_theory=cfg["theory"], time_dependent=bool(cfg.get("td")),
              secular_relaxation=bool(cfg.get("sec")),
              relaxation_cutoff_time=0.5 * ta.length * DT if cfg.get("cutoff") else None,
              coupling_cutoff=_ccut_internal() if cfg.get("ccut") else None,
              recalculate=bool(rc))
    if "proj" not in cfg:
        kw["as_operators"] = bool(cfg.get("ops"))
    if api == "propagator":
        prop = agg.get_ReducedDensityMatrixPropagator(ta, **kw)
        return prop.RelaxationTensor
    if api != "tensor":
        raise isolation.HarnessError("api %r" % (api,))
    T, _h = agg.get_RelaxationTensor(ta, **kw)
    return T


def _kind(T):
    ops = bool(T.as_operators)
    return [type(T).__name__, ops, None if ops else list(numpy.shape(T.data))]


def _snapshot(T):
    if T.as_operators:
        return [numpy.array(x, copy=True) for x in (T.Km, T.Lm, T.Ld)]
    return [numpy.array(T.data, copy=True)]


_SINGLE = {}


def _single(sysd, cfg):
    """What ONE request with these options gives on a fresh system (the meaning of the options;
    checked on its own by the sections bath / lindblad): kind and site-basis tensor (operator
    forms converted in the site basis), or the signature of an unsupported combination.
    A pure function of (system, configuration): kept per worker."""
    import json
    key = json.dumps([sysd, cfg], sort_keys=True)
    if key not in _SINGLE:
        if len(_SINGLE) > 200:
            _SINGLE.clear()
        try:
            T, _h = _build(sysd, cfg)
        except isolation.HarnessError:
            raise
        except Exception as e:
            sig = _unbuildable(sysd, cfg, e)
            if sig is None:
                raise
            _SINGLE[key] = {"unbuildable": sig}
        else:
            kind = _kind(T)
            if T.as_operators:
                T.convert_2_tensor()
            _SINGLE[key] = {"unbuildable": None, "kind": kind,
                            "site": numpy.array(T.data, copy=True)}
    return _SINGLE[key]


def _eval_requests(acc, case):
    """Two requests, one after the other, to ONE built system; the tensor the SECOND request
    returns must have the properties of the options of THAT request: both identities in the site
    basis and in eigenbasis_of(H), the secular clause (against a non-secular twin) when it asked
    for secular relaxation, kind (class, representation, time dependence) and elements of the
    tensor a single request with the same options gives on a fresh system (class R).  The tensor
    of the first request is not changed by the second one."""
    sysd, c1, c2 = case["sys"], case["first"], case["second"]
    rc1, rc2 = case["rc"]
    api = case["api"]
    v1, v2 = _variant(c1), _variant(c2)
    variant = "%s<<second-request:recalculate=%d:api=%s:after:%s:recalculate=%d" % (
        v2, rc2, api, v1, rc1)
    lind = "proj" in c1
    acc.label = ""
    if lind:
        acc.label = " {projectors |i><j| %s, rates %s}" % ([list(p) for p in c1["proj"]],
                                                           c1["rates"])
    ta, agg = _system(sysd, with_bath=not lind)
    ham = agg.get_Hamiltonian()
    if lind:
        agg.set_SystemBathInteraction(_lindblad_sbi(ham.dim, c1))

    def request(cfg, rc, a, which):
        try:
            return _os_request(agg, ta, cfg, rc, a)
        except isolation.HarnessError:
            raise
        except Exception as e:
            sig = _unbuildable(sysd, cfg, e)
            if sig is None:
                raise
            acc.unbuildable[sig] = acc.unbuildable.get(sig, 0) + 1
            acc.digest.append([variant, which + "-unbuildable", sig])
            return None
    T1 = request(c1, rc1, "tensor", "first")
    if T1 is None:
        return None
    kind1, snap1 = _kind(T1), _snapshot(T1)
    T2 = request(c2, rc2, api, "second")
    if T2 is None:
        return None
    acc.n["tensors"] += 2
    acc.n["second_requests"] += 1
    # the first tensor, as its holder sees it after the second request
    if _kind(T1) != kind1:
        acc.add("first-request-tensor-changed/kind/%s" % variant,
                "the tensor returned by the first request changed its kind %s -> %s during the "
                "second request" % (kind1, _kind(T1)))
    else:
        for a, b in zip(snap1, _snapshot(T1)):
            sc = TI.scale(a)
            if a.shape != b.shape or not TI.finite(b) or \
                    float(numpy.max(numpy.abs(a - b))) > RTOL * sc:
                acc.add("first-request-tensor-changed/data/%s" % variant,
                        "the tensor returned by the first request was changed by the second "
                        "request (max change %.3g, scale %.3g)"
                        % (float(numpy.max(numpy.abs(a - b))) if a.shape == b.shape
                           else float("inf"), sc))
                break
    single = _single(sysd, c2)
    if single["unbuildable"]:
        acc.add("second-request-returned-tensor-for-refused-options/%s" % variant,
                "the second request returned a tensor %s for an option combination a single "
                "request refuses (%s)" % (_kind(T2), single["unbuildable"]))
        return 0.0
    kind2 = _kind(T2)
    if kind2 != single["kind"]:
        acc.add("second-request-kind/%s" % variant,
                "the second request returned [class, operator form, shape] = %s, a single "
                "request with the same options gives %s" % (kind2, single["kind"]))
    if c2.get("sec") and not T2.as_operators:
        _os_secular_twin(acc, sysd, c2, T2, ham, variant)
    if T2.as_operators:
        T2.convert_2_tensor()
    R0 = numpy.array(T2.data, copy=True)
    _ok_t, _ok_h, site_sig = _ids(acc, R0, variant, "site")
    with _ctx("ebH", ham):
        _ids(acc, numpy.array(T2.data, copy=True), variant, "ebH", site_sig)
    ref = single["site"]
    sc = max(TI.scale(ref), TI.scale(R0) if TI.finite(R0) else 0.0)
    if R0.shape != ref.shape or not TI.finite(R0):
        dev = float("inf")
    else:
        dev = float(numpy.max(numpy.abs(R0 - ref)))
    if dev <= RTOL * sc:
        acc.rel("second-request-vs-single", dev, sc)
    else:
        acc.add("second-request-differs-from-single-request/%s" % variant,
                "the tensor returned by the second request differs from the tensor a single "
                "request with the same options gives on a fresh system: max |difference| %.3g, "
                "max|R| %.3g (shapes %s / %s)" % (dev, sc, list(R0.shape), list(ref.shape)),
                {"worst": dev, "scale": sc})
    acc.digest.append([variant, list(R0.shape), round(TI.scale(R0), 12),
                       round(float(numpy.sum(numpy.abs(R0))), 10)])
    return TI.scale(R0)


def _lindblad_cfgs(proj, tier="thorough"):
    out = []
    for rates in itertools.product(RATES, repeat=len(proj)):
        base = {"proj": proj, "rates": list(rates)}
        out.append(dict(base, via="direct", cls="LindbladForm", ops=0))
        out.append(dict(base, via="direct", cls="LindbladForm", ops=1))
        for th in ("Lindblad_form", "electronic_Lindblad"):
            for sec in (0, 1):
                out.append(dict(base, via="os", theory=th, sec=sec, ops=1 - sec))
    return out


def eval_case(case):
    acc = _Acc()
    acc.tier = case.get("tier", "thorough")
    sysd = case["sys"]
    if case["kind"] == "lindblad":
        cfgs = _lindblad_cfgs([tuple(p) for p in case["proj"]], acc.tier)
    elif case["kind"] == "requests":
        cfgs = []
    else:
        cfgs = [case["cfg"]]
    scales = []
    for cfg in cfgs:
        scales.append(_eval_cfg(acc, sysd, cfg))
    if case["kind"] == "requests":
        scales.append(_eval_requests(acc, case))
    isolation.reset_manager()
    built = [s for s in scales if s is not None]
    nontrivial = bool(built) and max(built) > 0.0
    info = {"worst": acc.worst, "n": acc.n, "unbuildable": acc.unbuildable,
            "refused": acc.refused, "kind": case["kind"]}
    return {"nontrivial": nontrivial, "outcome": acc.digest,
            "violations": list(acc.viol.values()), "n": max(0, len(cfgs) - 1), "info": info}


def replay(case):
    return eval_case(case)["violations"]


# --------------------------------------------------------------------------
# the spaces
# --------------------------------------------------------------------------
def _tensor_cfgs():
    cfgs = []
    # OpenSystem.get_RelaxationTensor: every theory with the full product of the options it reads
    for td in (0, 1):
        for sec in (0, 1):
            for ops in (0, 1):
                for cut in ((0, 1) if td else (0,)):   # cut-off time is only read when td
                    cfgs.append({"via": "os", "theory": "standard_Redfield", "td": td,
                                 "sec": sec, "ops": ops, "cutoff": cut, "ccut": 0})
    for td in (0, 1):                                 # Foerster branch reads no other option
        cfgs.append({"via": "os", "theory": "standard_Foerster", "td": td, "sec": 0,
                     "ops": 0, "cutoff": 0, "ccut": 0})
    for td in (0, 1):
        for sec in (0, 1):
            for cut in (0, 1):
                for cc in (0, 1):
                    cfgs.append({"via": "os", "theory": "combined_RedfieldFoerster",
                                 "td": td, "sec": sec, "ops": 0, "cutoff": cut, "ccut": cc})
    # direct constructors
    for cls in ("RedfieldRelaxationTensor", "TDRedfieldRelaxationTensor"):
        for ops in (0, 1):
            for cut in (0, 1):
                cfgs.append({"via": "direct", "cls": cls, "ops": ops, "cutoff": cut})
    for pd in (0, 1):
        for cut in (0, 1):
            cfgs.append({"via": "direct", "cls": "FoersterRelaxationTensor", "pd": pd,
                         "cutoff": cut})
    for cut in (0, 1):
        cfgs.append({"via": "direct", "cls": "TDFoersterRelaxationTensor", "cutoff": cut})
    for cls in ("RedfieldFoersterRelaxationTensor", "TDRedfieldFoersterRelaxationTensor"):
        for cut in (0, 1):
            for cc in (0, 1):
                cfgs.append({"via": "direct", "cls": cls, "cutoff": cut, "ccut": cc})
    return cfgs


def _cost(cfg):
    td = cfg.get("td") or str(cfg.get("cls", "")).startswith("TD")
    return (1 if td else 0, 1 if cfg.get("ops") else 0)


def _baths(tier):
    if tier == "quick":
        return [{"ftype": "OverdampedBrownian", "reorg": 20.0, "cortime": 50.0, "T": 300.0},
                {"ftype": "OverdampedBrownian-HighTemperature", "reorg": 60.0,
                 "cortime": 100.0, "T": 77.0}]
    out = []
    for ft in ("OverdampedBrownian", "OverdampedBrownian-HighTemperature"):
        for (lam, tau) in ((20.0, 50.0), (60.0, 100.0)):
            for T in (300.0, 77.0):
                out.append({"ftype": ft, "reorg": lam, "cortime": tau, "T": T})
    return out


def _hams(n, ens, Js):
    out = []
    for en in ens:
        for J in Js:
            if n == 1 and (en != "degenerate" or J != "zero"):
                continue                     # patterns coincide for one site
            if n == 2 and J == "all":
                continue                     # all-to-all == nearest neighbour for two sites
            out.append((en, J))
    return out


def cases(tier):
    sizes = (1, 2, 3) if tier == "quick" else (1, 2, 3, 4)
    modes = ("same",) if tier == "quick" else ("same", "sitewise")
    ens = ("degenerate", "distinct") if tier == "quick" else ("degenerate", "distinct", "neardeg")
    cs = []
    cfgs = _tensor_cfgs()
    for n in sizes:
        for (en, J) in _hams(n, ens, ("zero", "nn", "all")):
            for bath in _baths(tier):
                for mode in modes:
                    if n == 1 and mode != "same":
                        continue
                    for cfg in cfgs:
                        cs.append({"kind": "bath", "tier": tier,
                                   "sys": {"n": n, "en": en, "J": J, "bath": bath,
                                           "bathmode": mode}, "cfg": cfg})
    # section "bare": Hamiltonians without a separate ground state - the FIRST state is
    # resonance coupled to the others and has its own bath - with every direct constructor
    # (OpenSystem cannot produce such a system: its state 0 is the uncoupled ground state)
    dcfgs = [c for c in cfgs if c["via"] == "direct"]
    for n in ((2, 3) if tier == "quick" else (2, 3, 4)):      # n = number of states here
        for (en, J) in _hams(n, ens, ("nn", "all")):
            for bath in _baths(tier):
                for mode in modes:
                    for cfg in dcfgs:
                        cs.append({"kind": "bare", "tier": tier,
                                   "sys": {"n": n, "en": en, "J": J, "bath": bath,
                                           "bathmode": mode, "bare": 1}, "cfg": cfg})
    # Lindblad forms: the Hamiltonian only fixes the dimension and the reading bases
    if tier == "quick":
        lens, lJs = ("distinct",), ("all", "nn")
    else:
        lens, lJs = ("distinct", "degenerate"), ("all", "nn")
    for n in sizes:
        d = n + 1
        projs = [(i, j) for i in range(d) for j in range(d)]
        sets = [[p] for p in projs] + [list(c) for c in itertools.combinations(projs, 2)]
        hams = _hams(n, lens, lJs)
        if n == 1:
            hams = [("degenerate", "zero")]
        elif tier == "quick":
            hams = hams[:1]
        for (en, J) in hams:
            for s in sets:
                cs.append({"kind": "lindblad", "tier": tier, "sys": {"n": n, "en": en, "J": J},
                           "proj": [list(p) for p in s]})
    cs += _request_cases(tier)
    # simplest first: size, then cheap configurations first inside one size
    cs.sort(key=lambda c: (c["sys"]["n"], {"bath": 0, "bare": 1, "lindblad": 2}.get(c["kind"], 3)))
    return cs


def _request_cases(tier):
    """Section "requests": system x ordered pair (first request, second request) of OpenSystem
    configurations x recalculate flag of each request x route of the second request."""
    quick = tier == "quick"
    cs = []
    os_cfgs = [c for c in _tensor_cfgs() if c["via"] == "os"]
    if quick:       # quick bound: theories x (time_dependent, secular, as_operators), no cut-offs
        os_cfgs = [c for c in os_cfgs if not c["cutoff"] and not c["ccut"]]
    rcs = [(1, 1), (1, 0)] if quick else [(1, 1), (1, 0), (0, 1), (0, 0)]
    apis = ["tensor"] if quick else ["tensor", "propagator"]
    bath = _baths(tier)[0]
    for n in ((2,) if quick else (2, 3)):
        sysd = {"n": n, "en": "distinct", "J": "nn" if n == 2 else "all", "bath": bath,
                "bathmode": "same", "nt": NT_REQ}
        for c1 in os_cfgs:
            for c2 in os_cfgs:
                for rc in rcs:
                    for api in apis:
                        cs.append({"kind": "requests", "tier": tier, "sys": sysd, "first": c1,
                                   "second": c2, "rc": list(rc), "api": api})
    # Lindblad theories of OpenSystem (rates instead of a bath)
    lth = [{"via": "os", "theory": th, "sec": sec, "ops": 1 - sec}
           for th in ("Lindblad_form", "electronic_Lindblad") for sec in (0, 1)]
    for n in ((2,) if quick else (2, 3)):
        d = n + 1
        projs = [(i, j) for i in range(d) for j in range(d)]
        sets = [[p] for p in projs]
        if not quick and n == 2:
            sets += [list(c) for c in itertools.combinations(projs, 2)]
        sysd = {"n": n, "en": "distinct", "J": "all" if n > 2 else "nn"}
        for s_ in sets:
            base = {"proj": [list(p) for p in s_], "rates": list(RATES[:len(s_)])}
            for c1 in lth:
                for c2 in lth:
                    for rc in rcs:
                        for api in apis:
                            cs.append({"kind": "requests", "tier": tier, "sys": sysd,
                                       "first": dict(c1, **base), "second": dict(c2, **base),
                                       "rc": list(rc), "api": api})
    return cs


def run(run):
    run.rule = ("section bare: number of states x energy pattern x coupling pattern x bath x bath "
                "mode x direct-constructor configuration (22) on hand-made Hamiltonians whose "
                "first state is coupled and has a bath (no separate ground state); "
                "section bath: full product size x energy pattern x coupling pattern x bath x "
                "bath mode x tensor configuration (52 configurations: OpenSystem theories x "
                "options, direct constructors x options); section lindblad: size x Hamiltonian x "
                "every set of <=2 projectors |i><j|, inside a case every rate assignment x form; "
                "for every tensor: every element and time index, 6+ reads in 4 bases, every "
                "secularisation implementation in 4 contexts; for every time independent tensor "
                "(both representations) the action through apply() on all matrix units x copy flag "
                "x contexts %s; section requests: system x ordered pair of OpenSystem "
                "configurations x recalculate flags %s x route %s of the second request on ONE "
                "built system (properties of the second tensor = those of the options of the "
                "second request); non-trivial = tensor built and max|R| > 0"
                % (list(APPLY_CTX[run.tier]),
                   "(second request)" if run.tier == "quick" else "(both requests)",
                   ["tensor"] if run.tier == "quick" else ["tensor", "propagator"]))
    run.assumptions = [
        "oracle: the two tensor identities and the definition of the secular projection "
        "(mc/refmodels/tensor_identities.py), class R tolerance 1e-10*max|R| over the whole "
        "array; kept/zero clauses of directly called secularisations are exact (bit level)",
        "secularisation variants are applied to copy.copy(tensor) with a private copy of the "
        "data (tensor form) or to freshly built objects (operator form); the real object is "
        "secularised last with its default call",
        "post-secular identities are demanded only when the pre-secular tensor satisfied them",
        "option combinations listed in _unbuildable are excluded and counted; any other "
        "library exception is a crash violation",
        "action through apply(): time independent tensors only (apply() of a time dependent "
        "operator form raises ValueError, of a time dependent tensor form it returns an Operator "
        "holding a 3-index array: no per-time action is defined by the package); the operator "
        "|c><d| is created inside the context in which apply() is called; quick: contexts "
        "site / eigenbasis_of(H) / eigenbasis_of(complex Hermitian X)",
        "section requests: both requests carry ALL options explicitly; the reference for the "
        "second tensor is a single request with the same options on a fresh system of the same "
        "description (cached per worker; its own properties are decided by the sections bath / "
        "lindblad); systems: one heterodimer (thorough: and one trimer), first bath, time axis of "
        "%d points; quick: no cut-off options, recalculate of the first request True, route "
        "get_RelaxationTensor; a first request that hits an unsupported combination ends the "
        "case (counted): what a failed request leaves behind is not claimed" % NT_REQ]
    cs = cases(run.tier)
    run.bounds = {"nsites": "1..3" if run.tier == "quick" else "1..4",
                  "bare_states": "2..3" if run.tier == "quick" else "2..4", "Nt": NT,
                  "baths": len(_baths(run.tier)),
                  "bath_modes": 1 if run.tier == "quick" else 2,
                  "tensor_configurations": len(_tensor_cfgs()),
                  "lindblad_projector_sets": "all subsets of size<=2 of the d^2 projectors",
                  "rates": list(RATES), "coupling_cutoff_cm": CCUT_CM,
                  "cutoff_time_fs": 0.5 * NT * DT, "tolerance_R": RTOL,
                  "apply_contexts": list(APPLY_CTX[run.tier]), "apply_copy": [True, False],
                  "request_pairs": sum(1 for c in cs if c["kind"] == "requests"),
                  "request_Nt": NT_REQ}
    infos = run_grid(run, cs, eval_case)
    worst = {}
    counts = {}
    unb = {}
    ref = {}
    for i in infos:
        for k, v in i["refused"].items():
            ref[k] = ref.get(k, 0) + v
        for k, v in i["worst"].items():
            worst[k] = max(worst.get(k, 0.0), v)
        for k, v in i["n"].items():
            counts[k] = counts.get(k, 0) + v
        for k, v in i["unbuildable"].items():
            unb[k] = unb.get(k, 0) + v
    run.note(worst_relative_deviation=worst, counts=counts, unbuildable=unb,
             unbuildable_total=sum(unb.values()), secularisation_refused_for_operator_form=ref)
    print("C01 worst relative deviations (|defect|/max|R|): %s" %
          ", ".join("%s=%.2e" % kv for kv in sorted(worst.items())))
    print("C01 counts: %s" % ", ".join("%s=%d" % kv for kv in sorted(counts.items())))
    print("C01 unbuildable (excluded, not violations): %s"
          % (", ".join("%s x%d" % kv for kv in sorted(unb.items())) or "none"))
    print("C01 secularisation refused for operator forms (not violations): %s"
          % (", ".join("%s x%d" % kv for kv in sorted(ref.items())) or "none"))
