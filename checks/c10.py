"""C10 Vibronic structure follows the displaced-oscillator model.

E-grid (complete products, no sampling) over

* shiftop : Huang-Rhys factor x sign of the shift x basis size of operator_factory
            ("default" = the factory as the aggregate code creates it; the shift is obtained
            through Mode.set_HR / set_shift / get_shift);
* shiftop-direct : Huang-Rhys factor x argument class of the direct call
            operator_factory(N).shift_operator(d): d real positive, real negative, purely
            imaginary (both signs), general complex (three phases) x basis size;
* agg     : aggregates of two-level molecules with harmonic modes; every mode slot
            independently takes every (Huang-Rhys factor, sign, levels in g, levels in e)
            of its alphabet; x number of molecules x modes per molecule x coupling x
            exciton multiplicity x ground-state displacement x frequency set.  For
            one-molecule cases (up to 3 modes, thorough 4) Molecule.get_Hamiltonian is
            checked on a fresh molecule: every element between all pairs of quantum-number
            tuples against the sum over modes of one-mode displaced-oscillator Hamiltonians,
            and the spectrum.
* fem-full : aggregates (2-3 molecules, 1-2 modes per molecule) x exciton multiplicity x the
            build option fem_full in {False, True}: with the option the Hamiltonian also
            carries the couplings between bands that differ by two excitations (ground <->
            two-exciton ...), = J_kl x product of the modes' overlaps like every other block.
* coupling-call : the direct observation route Aggregate.coupling(s1, s2[, full=True]) for
            ALL ordered pairs of vibronic states of the built aggregate x full in {default,
            True} x call context {no context, energy_units(int | 1/cm | eV | THz | meV)} x
            VibronicState objects made {outside, inside} the context.  coupling() returns its
            value in the current energy units; reference J[internal]/factor(unit) x overlaps.

* history-* : HISTORIES of parameter settings on the same Mode / Molecule objects before the
            build.  One setting = (route set_HR | set_shift (both signs) | set_all) x
            Huang-Rhys factor (0 included) x (levels in g, levels in e) [set_nmax]; every mode
            slot independently takes ALL ordered pairs (and triples) of settings, repetitions
            included; x stage at which the final setting is made {on the fresh molecule,
            after Molecule.get_Hamiltonian was retrieved, when the molecule already belongs
            to an Aggregate, after the Aggregate was built with the earlier settings}.
            Oracle: the getters report the value set last and everything built afterwards
            (state counts, FCf, Hamiltonian, dipoles, Molecule Hamiltonian) is that of fresh
            objects given the last values directly (the same reference as everywhere).

* near-degenerate : Huang-Rhys factors that are NEARLY equal (S0 and S0(1+e), e = 1e-8..1e-2)
            or very small (1e-13..1e-5) next to the ordinary ones; every mode slot of a
            2-3 molecule / 2-mode aggregate independently takes every value and sign (so
            both orders of every pair occur) x ground-state displacement; and as a HISTORY:
            the same Aggregate built before with displacements that differ by delta =
            1e-8..1e-2 (key "delta" of the second-build history).  Each mode's overlaps are
            those of ITS OWN Huang-Rhys factor (same reference, same tolerance).
* many-shifts : number of mode slots 1..9 (thorough 20) x number of pairwise DIFFERENT
            Huang-Rhys factors among them 1..slots (ladder 0.1, 0.2, ...) x shape {one, two
            modes per molecule} x level pattern x sign pattern x coupling {0, J}: large
            aggregates in which up to 41 different displacement differences are needed.
* post-build : LATER CALLS on the built Aggregate object before the matrices are looked at
            again: all ordered pairs (thorough: triples) of {diagonalize, reading the
            operators inside eigenbasis_of(H), get_StateVector, get_DensityMatrix (three
            condition types), get_transition sweep, exciton analysis getters, build() again,
            rebuild()}; after EVERY call of the sequence H, the dipole operator and FCf are
            compared again - retrieved anew and through the objects held from before the
            calls - with electronic quantity x product of overlaps.

* three-level : molecules with THREE electronic levels in the aggregate (levels per molecule
            pattern [3], [3,2], [2,3], [3,3], [3,2,3] ... x every slot of a three-level
            molecule independently takes every (HR, sign) of level 1 x (HR, sign) of level 2 x
            (n0, n1, n2) x dipole pattern of the transitions 0-1, 1-2, 0-2 x multiplicity).
            Signatures = all level tuples with at most `mult` excitations; a dipole element is
            the dipole declared for exactly the two levels between which the one molecule
            changes x overlaps D(d_a - d_b) of the two levels; H couplings: 0-1 hops = J x
            overlaps; blocks that involve a second excited level: product structure only
            (one fitted number per block x overlaps).  One-molecule cases: three-block
            Molecule.get_Hamiltonian.
* mol-frequency : one molecule whose modes have ANOTHER frequency in the excited state
            (ratio w_e/w_g x route Mode.set_energy | set_all x HR x sign x levels x 1-3
            modes x ground-state displacement): Molecule.get_Hamiltonian element-wise and
            spectrum against E_e + sum w(e)(a+a - dQ + d^2/2 + 1/2), zero-point terms
            included (only one common constant is free).

Oracles (mc/refmodels/fc_laguerre.py, closed Laguerre formula, no diagonalisation, no
quantarhei): see the clause list in run().

Orientation of the coordinate.  The aggregate code uses overlap(a,b) = <n_a|D(d_a-d_b)|n_b>
(sigma=+1).  Mirroring every oscillator coordinate (Q -> -Q, sigma=-1) conjugates FCf, H and
the dipole operator by the diagonal sign matrix (-1)^(vibrational quanta) -- a unitarily
equivalent description that the property statement does not exclude.  The check therefore
accepts EITHER orientation, but the same one for all of FCf, H and the dipoles of a case.
"""
import numpy

from mc import isolation
from mc.explore import run_grid, product
from mc.refmodels import fc_laguerre as F

LEVEL = "model_checking"
TOL = 1e-10                      # class R

W_SETS = {"A": [0.05, 0.08, 0.03, 0.11, 0.065, 0.045],      # internal energy units
          "B": [0.06, 0.06, 0.06, 0.06, 0.06, 0.06]}        # degenerate modes
E_EL = [1.0, 1.07, 0.94]
DIPS = [[1.0, 0.0, 0.0], [0.3, 0.9, 0.1], [-0.4, 0.2, 0.8]]
JFAC = {(0, 1): 1.0, (0, 2): -0.6, (1, 2): 1.7}
MAXLIB = 20                      # the library tabulates 20 levels per shift


def _e_el(i):
    """transition energy of molecule i (tabulated for the first three, a fixed non-degenerate
    formula beyond)"""
    return E_EL[i] if i < len(E_EL) else 0.9 + 0.013 * ((5 * i) % 17)


def _dip(i):
    if i < len(DIPS):
        return DIPS[i]
    return [round(float(numpy.cos(0.7 * i)), 6), round(float(numpy.sin(0.7 * i)), 6),
            round(0.1 * i - 0.5, 6)]


DIP3 = ["all-different", "1-2-parallel-to-0-1", "no-0-2"]


def _dips3(i, pattern):
    """declared transition dipoles of the three-level molecule i: 0-1 as for two-level
    molecules; 1-2 and 0-2 by pattern"""
    d01 = [float(x) for x in _dip(i)]
    d12 = [round(0.7 * d01[1] - 0.2, 6), round(-0.5 * d01[2] + 0.6, 6), round(0.4 * d01[0], 6)]
    d02 = [round(0.3 * d01[2] + 0.1, 6), round(0.2 * d01[0], 6), round(-0.3 * d01[1] + 0.25, 6)]
    if pattern == "1-2-parallel-to-0-1":
        d12 = [round(1.4 * x, 6) for x in d01]
    elif pattern == "no-0-2":
        d02 = [0.0, 0.0, 0.0]
    elif pattern != "all-different":
        raise isolation.HarnessError("unknown dipole pattern %r" % (pattern,))
    return {"0-1": d01, "1-2": d12, "0-2": d02}


def _jfac(i, j):
    if (i, j) in JFAC:
        return JFAC[(i, j)]
    return (-1.0) ** (i + j) * 1.3 / float(j - i) ** 2


# --------------------------------------------------------------------------
# specs
# --------------------------------------------------------------------------
def _shift(S, sg):
    return float(sg) * float(numpy.sqrt(2.0 * float(S)))


def _spec(case):
    """JSON case -> reference-model spec (independent of the library)."""
    W = W_SETS[case.get("wset", "A")]
    d0 = float(case.get("d0", 0.0))
    nm = case["nm"]
    lev = list(case.get("lev") or [2] * len(nm))      # electronic levels per molecule
    mols, k = [], 0
    for i, nmod in enumerate(nm):
        modes = []
        for _ in range(nmod):
            sl = case["slots"][k]
            w = float(sl["w"]) if "w" in sl else W[k]
            md = {"w": w, "d": [d0, _shift(sl["S"], sl["sg"])],
                  "n": [int(sl["n0"]), int(sl["n1"])],
                  "S": float(sl["S"]), "sg": int(sl["sg"]),
                  "n0": int(sl["n0"]), "n1": int(sl["n1"]),
                  "r": sl.get("r"), "hist": list(sl.get("hist") or [])}
            if lev[i] == 3:
                # second excited level of the molecule: its own displacement and levels
                md["d"].append(_shift(sl["S2"], sl["sg2"]))
                md["n"].append(int(sl["n2"]))
                md["S2"], md["sg2"] = float(sl["S2"]), int(sl["sg2"])
            elif lev[i] != 2:
                raise isolation.HarnessError("2 or 3 electronic levels per molecule")
            if "wr" in sl:
                # the mode has another frequency in the excited state: w_e = wr * w_g
                md["ws"] = [w, w * float(sl["wr"])]
                md["wroute"] = sl.get("wroute", "set_energy")
            modes.append(md)
            k += 1
        mol = {"E": [0.0, _e_el(i)], "dip": _dip(i), "modes": modes}
        if lev[i] == 3:
            mol["E"].append(round(1.93 * _e_el(i) + 0.02 * i, 10))
            mol["dips"] = _dips3(i, case.get("dip3", "all-different"))
        mols.append(mol)
    n = len(nm)
    J = [[0.0] * n for _ in range(n)]
    for i in range(n):
        for j in range(i + 1, n):
            J[i][j] = J[j][i] = float(case.get("J", 0.0)) * _jfac(i, j)
    return {"mols": mols, "J": J}


# routes by which one SETTING of a mode's excited-state parameters is made
#   "HR"    : set_nmax(0,.), set_nmax(1,.), set_HR(1, S)
#   "shift" : set_nmax(0,.), set_nmax(1,.), set_shift(1, sg*sqrt(2S))
#   "all"   : set_nmax(0,.), set_all(1, [omega, sg*sqrt(2S), n1])
# default (cases without the key "r"): "HR" for positive shifts, "shift" for negative ones
STAGES = ["fresh", "after-mol-H", "in-aggregate", "after-build"]


def _apply_setting(mode, st, w, viol, dev, later):
    """One setting st = {S, sg, n0, n1[, r]} on a Mode object, followed by reading the values
    back: the getters report the value set LAST (later=True: the mode carried other values
    from an earlier setting)."""
    S, sg = float(st["S"]), int(st["sg"])
    route = st.get("r") or ("HR" if sg > 0 else "shift")
    d = _shift(S, sg)
    mode.set_nmax(0, int(st["n0"]))
    if route == "all":
        mode.set_all(1, [w, d, int(st["n1"])])
    else:
        mode.set_nmax(1, int(st["n1"]))
        if route == "HR":
            if sg <= 0:
                raise isolation.HarnessError("route HR needs a positive sign")
            mode.set_HR(1, S)                        # the Huang-Rhys route
        else:
            mode.set_shift(1, d)                     # signed displacement
    # Huang-Rhys factor <-> shift
    hr = mode.get_HR(1)
    err = abs(hr - S)
    dev["hr"] = max(dev.get("hr", 0.0), err)
    if err > TOL * max(1.0, S):
        if later:
            viol.append(("history/get_HR-is-not-the-value-set-last",
                         "after earlier settings on the same Mode, %s for Huang-Rhys factor "
                         "%g leaves get_HR(1) = %g (shift %g)"
                         % ({"HR": "set_HR", "shift": "set_shift", "all": "set_all"}[route],
                            S, hr, mode.get_shift(1)), None))
        else:
            viol.append(("hr/set-get-roundtrip",
                         "Huang-Rhys factor %g comes back as %g (shift %g)"
                         % (S, hr, mode.get_shift(1)), None))
    if sg > 0 and abs(mode.get_shift(1) ** 2 / 2.0 - S) > TOL * max(1.0, S):
        viol.append(("hr/shift-squared-over-2" if not later
                     else "history/shift-squared-over-2-is-not-the-value-set-last",
                     "set_HR(%g) gives shift %g, shift^2/2 = %g"
                     % (S, mode.get_shift(1), mode.get_shift(1) ** 2 / 2.0), None))
    if later:
        got = (mode.get_nmax(0), mode.get_nmax(1))
        if got != (int(st["n0"]), int(st["n1"])):
            viol.append(("history/get_nmax-is-not-the-value-set-last",
                         "after earlier settings on the same Mode, level counts (%d, %d) come "
                         "back as %s" % (st["n0"], st["n1"], got), None))


def _molecule(qr, mol, viol, dev, stage="fresh", pending=None):
    """Molecule of the spec.  Every mode first receives the EARLIER settings of its history
    md["hist"] (if any) and then the final setting md.  stage "after-mol-H": the molecule's
    Hamiltonian is retrieved between the earlier settings and the final ones; pending (a
    list): the final settings are not applied but appended to it as callables (the caller
    applies them later, e.g. when the molecule already belongs to an Aggregate)."""
    m = qr.Molecule(elenergies=list(mol["E"]))
    if mol.get("dips") is not None:
        for key, vec in mol["dips"].items():
            a, b = (int(x) for x in key.split("-"))
            if any(v != 0.0 for v in vec):
                m.set_dipole((a, b), list(vec))
    else:
        m.set_dipole(0, 1, list(mol["dip"]))
    two_phase = pending is not None or any(md.get("hist") for md in mol["modes"])

    def final(mode, md, later):
        w1 = md["w"]
        if md.get("ws") is not None:
            # another frequency in the excited state, by Mode.set_energy or through set_all
            w1 = md["ws"][1]
            if md["wroute"] == "set_energy":
                mode.set_energy(1, w1)
            elif md["wroute"] != "set_all":
                raise isolation.HarnessError("unknown frequency route %r" % (md["wroute"],))
            md = dict(md, r="all") if md["wroute"] == "set_all" else md
        _apply_setting(mode, md, w1, viol, dev, later)
        if md["d"][0] != 0.0:
            mode.set_shift(0, md["d"][0])
        if len(md["d"]) == 3:
            mode.set_nmax(2, int(md["n"][2]))
            if md["sg2"] > 0:
                mode.set_HR(2, md["S2"])
            else:
                mode.set_shift(2, md["d"][2])
            if abs(mode.get_HR(2) - md["S2"]) > TOL * max(1.0, md["S2"]):
                viol.append(("hr/set-get-roundtrip/level-2",
                             "Huang-Rhys factor %g of the second excited level comes back "
                             "as %g" % (md["S2"], mode.get_HR(2)), None))
        if md.get("ws") is not None:
            got = [float(mode.get_energy(e)) for e in range(2)]
            if max(abs(got[e] - md["ws"][e]) for e in range(2)) > TOL:
                viol.append(("mode/frequency-set-get-roundtrip",
                             "mode frequencies %s in (g, e) set by %s come back as %s"
                             % (md["ws"], md["wroute"], got), None))

    todo = []
    for md in mol["modes"]:
        mode = qr.Mode(frequency=md["w"])
        m.add_Mode(mode)
        if not two_phase:
            final(mode, md, False)
            continue
        for q, st in enumerate(md.get("hist") or []):
            _apply_setting(mode, st, md["w"], viol, dev, q > 0)
        todo.append((mode, md, bool(md.get("hist"))))
    if two_phase and stage == "after-mol-H":
        m.get_Hamiltonian()
        isolation.reset_units()
    for (mode, md, later) in todo:
        if pending is None:
            final(mode, md, later)
        else:
            pending.append(lambda mode=mode, md=md, later=later: final(mode, md, later))
    return m


def _dedupe(viol):
    seen, out = set(), []
    for v in viol:
        if v[0] not in seen:
            seen.add(v[0])
            out.append(v)
    return out


def _maxerr(a, b):
    a, b = numpy.asarray(a), numpy.asarray(b)
    if a.shape != b.shape:
        return float("inf"), None
    if a.size == 0:
        return 0.0, None
    d = numpy.abs(a - b)
    if not numpy.all(numpy.isfinite(d)):
        return float("inf"), None
    k = numpy.unravel_index(int(numpy.argmax(d)), d.shape)
    return float(d[k]), k


# --------------------------------------------------------------------------
# shift operator
# --------------------------------------------------------------------------
LEVELS_ORTH = [1, 2, 3, 5, 8, 20]


PHASES = [[1.0, 0.0], [-1.0, 0.0], [0.0, 1.0], [0.0, -1.0],
          [0.6, 0.8], [-0.8, 0.6], [0.28, -0.96]]          # exact unit vectors (re, im)


def _phase_class(ph):
    if ph[1] == 0.0:
        return "real-positive" if ph[0] > 0 else "real-negative"
    return "imaginary" if ph[0] == 0.0 else "complex"


def eval_shiftop(case):
    qr = isolation.qr()
    from quantarhei.qm.oscillators.ho import operator_factory
    viol, dev = [], {}
    S = float(case["S"])
    ph = case.get("ph")
    # N = "default": the factory exactly as the aggregate code creates it
    of = operator_factory() if case["N"] == "default" else operator_factory(int(case["N"]))
    N = int(of.N)
    if ph is None:
        # route "mode": the shift is what Mode.set_HR / set_shift / get_shift hand to the
        # aggregate code (real shifts only)
        sg = int(case["sg"])
        mol = {"E": [0.0, 1.0], "dip": DIPS[0],
               "modes": [{"w": 0.05, "d": [0.0, _shift(S, sg)], "n": [2, 2], "S": S, "sg": sg,
                          "n0": 2, "n1": 2}]}
        m = _molecule(qr, mol, viol, dev)
        d_lib = m.get_Mode(0).get_shift(1)           # what the aggregate code would use
        d_ref = _shift(S, sg)
        sfx, tag = "", sg
    else:
        # route "direct": operator_factory(N).shift_operator(d) with d of every argument
        # class (real positive / real negative / purely imaginary / general complex),
        # |d|^2/2 = S
        r = float(numpy.sqrt(2.0 * S))
        if ph[1] == 0.0:
            d_ref = float(ph[0]) * r
            sfx = ""
        else:
            d_ref = complex(float(ph[0]) * r, float(ph[1]) * r)
            sfx = "/%s-shift" % _phase_class(ph)
        d_lib = d_ref
        tag = "direct:%s" % _phase_class(ph)
    D = numpy.asarray(of.shift_operator(d_lib))
    if D.shape != (N, N):
        viol.append(("shiftop/shape", "shift operator has shape %s" % (D.shape,), None))
        return {"nontrivial": S > 0, "outcome": "bad-shape", "violations": viol}
    M = min(MAXLIB, N)
    R = F.disp_matrix(d_ref, M)
    err, k = _maxerr(D[:M, :M], R)
    dev["shiftop-laguerre"] = err
    if not err <= TOL:
        viol.append(("shiftop/laguerre-block%d%s" % (M, sfx),
                     "<%s|D(%s)|%s> = %s, closed formula %s (HR=%g, N=%d)"
                     % (k[0] if k else "?", d_ref, k[1] if k else "?",
                        D[k] if k else "?", R[k] if k else "?", S, N), {"err": err}))
    # Poisson distribution from the vibrational ground state, mean = Huang-Rhys factor
    p = numpy.abs(D[:, 0]) ** 2
    pref = F.poisson(S, M)
    err, k = _maxerr(p[:M], pref)
    dev["shiftop-poisson"] = err
    if not err <= TOL:
        viol.append(("shiftop/poisson-pmf%s" % sfx,
                     "|<%s|D(%s)|0>|^2 = %s, Poisson(%g) gives %s"
                     % (k[0] if k else "?", d_ref, p[k] if k else "?", S,
                        pref[k] if k else "?"), {"err": err}))
    mean = float(numpy.sum(numpy.arange(N) * p))
    norm = float(numpy.sum(p))
    e2 = max(abs(mean - S), abs(norm - 1.0))
    dev["shiftop-mean"] = e2
    if not e2 <= TOL * max(1.0, S):
        viol.append(("shiftop/poisson-mean%s" % sfx,
                     "distribution from the ground state has norm %.12g and mean %.12g, "
                     "Huang-Rhys factor is %g" % (norm, mean, S), None))
    # unitarity of the full matrix; sub-blocks orthogonal up to the truncated tail
    DDh, DhD = D @ D.conj().T, D.conj().T @ D
    err, _ = _maxerr(DDh, numpy.eye(N))
    dev["shiftop-unitary"] = err
    if not err <= TOL:
        viol.append(("shiftop/unitary-full%s" % sfx,
                     "max|D D^+ - 1| = %g on %d levels (shift %s)" % (err, N, d_ref), None))
    # unitarity seen in the converged low-level block (levels < M of the full products)
    err = max(_maxerr(DDh[:M, :M], numpy.eye(M))[0], _maxerr(DhD[:M, :M], numpy.eye(M))[0])
    dev["shiftop-unitary-low"] = err
    if not err <= TOL:
        viol.append(("shiftop/unitary-low-block%d%s" % (M, sfx),
                     "max|(D D^+ - 1)|, |(D^+ D - 1)| on the lowest %d levels = %g (shift %s)"
                     % (M, err, d_ref), None))
    worst = 0.0
    for n in LEVELS_ORTH:
        if n > M:
            continue
        B = D[:n, :n]
        for tg, G, dd in (("rows", B @ B.conj().T, d_ref), ("cols", B.conj().T @ B, -d_ref)):
            t = numpy.array([F.row_tail(dd, i, n) for i in range(n)])
            bound = numpy.sqrt(numpy.outer(t, t))
            exc = numpy.abs(G - numpy.eye(n)) - bound
            mx = float(numpy.max(exc)) if numpy.all(numpy.isfinite(exc)) else float("inf")
            worst = max(worst, mx)
            if not mx <= TOL:
                viol.append(("shiftop/orth-truncation/%s%s" % (tg, sfx),
                             "%d-level block: |B B^+ - 1| exceeds the truncated tail weight "
                             "by %g" % (n, mx), None))
            # the diagonal deficit IS the tail weight
            e3 = numpy.abs((1.0 - numpy.real(numpy.diag(G))) - t)
            e3 = float(numpy.max(e3)) if numpy.all(numpy.isfinite(e3)) else float("inf")
            worst = max(worst, e3)
            if not e3 <= TOL:
                viol.append(("shiftop/orth-deficit/%s%s" % (tg, sfx),
                             "%d-level block: diagonal deficit differs from the tail weight "
                             "by %g" % (n, e3), None))
    dev["shiftop-orth"] = worst

    def _r(z):
        z = complex(z)
        if not (numpy.isfinite(z.real) and numpy.isfinite(z.imag)):
            return "nonfinite"
        return [round(z.real, 9), round(z.imag, 9)]

    out = ["shiftop", case["N"], N, round(S, 6), tag, ph, _r(D[0, 0]), _r(D[1, 0])]
    return {"nontrivial": S > 0, "outcome": out, "violations": _dedupe(viol),
            "info": {"dev": dev}}


# --------------------------------------------------------------------------
# aggregates
# --------------------------------------------------------------------------
def _blocktype(la, lb):
    ba, bb = sum(la[0]), sum(lb[0])
    nm = "gef3456789"
    lo, hi = sorted((ba, bb))
    if ba == bb:
        return "%s-%s-%s" % (nm[lo], nm[hi], "same" if la[0] == lb[0] else "other")
    return "%s-%s" % (nm[lo], nm[hi])


def _reference(spec, elsigs, labels_lib, sigma, fem):
    """reference FCf, H, dipoles in the order of the library's state labels"""
    labels, FC, H, DD = F.aggregate_reference(spec, elsigs, sigma, full=fem)
    pos = {l: k for k, l in enumerate(labels)}
    perm = numpy.array([pos[l] for l in labels_lib])
    return FC[numpy.ix_(perm, perm)], H[numpy.ix_(perm, perm)], DD[numpy.ix_(perm, perm)]


def eval_agg(case):
    qr = isolation.qr()
    viol, dev = [], {}
    spec = _spec(case)
    mult = int(case.get("mult", 1))
    nmol = len(spec["mols"])
    maxlev = max([max(md["n"]) for mol in spec["mols"] for md in mol["modes"]] + [1])
    seff = [abs(md["d"][1] - md["d"][0]) for mol in spec["mols"] for md in mol["modes"]
            if md["n"][0] * md["n"][1] > 1]
    nontrivial = any(s > 0 for s in seff)

    # build option fem_full: the Hamiltonian also carries the couplings between bands that
    # differ by two excitations (ground <-> two-exciton ...)
    fem = bool(case.get("fem", False))
    # HISTORY of parameter settings on the same Mode/Molecule objects: stage = where the
    # final setting of every mode is made (the earlier ones are made on the fresh molecule)
    stage = case.get("stage", "fresh")
    if stage not in STAGES:
        raise isolation.HarnessError("unknown stage %r" % (stage,))
    pending = [] if stage in ("in-aggregate", "after-build") else None
    mols = [_molecule(qr, mol, viol, dev, stage, pending) for mol in spec["mols"]]
    agg = qr.Aggregate(molecules=mols)
    for i in range(nmol):
        for j in range(i + 1, nmol):
            if spec["J"][i][j] != 0.0:
                agg.set_resonance_coupling(i, j, spec["J"][i][j])
    if stage == "after-build":
        # the aggregate is built with the earlier settings, then the final ones are made
        try:
            agg.build(mult=mult, fem_full=fem)
        finally:
            isolation.reset_units()
    for f in (pending or []):
        f()
    if case.get("history") == "second-build":
        # HISTORY: the same Aggregate object was built before with other displacements; the
        # displacements are then set to the values of this case and build() is called again
        # (case["delta"]: by how much the earlier displacements differ; default 0.9, small
        # values = an earlier build with NEARLY the same displacements)
        olds = []
        delta = float(case.get("delta", 0.9))
        for m in mols:
            for k in range(m.get_number_of_modes()):
                md = m.get_Mode(k)
                olds.append((md, md.get_shift(1)))
                md.set_shift(1, md.get_shift(1) + delta)
        agg.build(mult=mult, fem_full=fem)
        isolation.reset_units()
        for md, sh in olds:
            md.set_shift(1, sh)
    try:
        if "fem" in case:
            agg.build(mult=mult, fem_full=fem)
        else:
            agg.build(mult=mult)                     # the option left at its default
    except IndexError as e:
        isolation.reset_units()
        if maxlev > MAXLIB:
            # the package tabulates 20 levels per shift: more levels are not buildable.
            return {"nontrivial": False, "outcome": "unbuildable/levels>20",
                    "violations": viol, "info": {"unbuildable": "levels>20: IndexError %s" % e}}
        raise
    finally:
        isolation.reset_units()

    # ---- clause: number of vibronic states per electronic state ------------
    nlev = [len(mol["E"]) for mol in spec["mols"]]
    want_sigs = F.el_signatures(nmol, mult, nlev)
    lib_sigs = [tuple(int(x) for x in s) for s in agg.elsigs]
    if sorted(lib_sigs) != sorted(want_sigs) or len(set(lib_sigs)) != len(lib_sigs):
        viol.append(("count/electronic-signatures",
                     "electronic states %s, expected %s" % (lib_sigs, want_sigs), None))
        return {"nontrivial": nontrivial, "outcome": "bad-elsigs", "violations": _dedupe(viol)}
    counts = []
    labels_lib = [None] * int(agg.Ntot)
    bad_count = False
    for i, es in enumerate(lib_sigs):
        want = F.state_count(spec, es)
        idx = list(agg.vibindices[i])
        counts.append(len(idx))
        if len(idx) != want:
            viol.append(("count/states-per-electronic-state",
                         "electronic state %s carries %d vibronic states, product of the "
                         "declared level counts is %d" % (es, len(idx), want), None))
            bad_count = True
            continue
        nst = agg.get_ElectronicState(es, index=i).number_of_states()
        if nst != want:
            viol.append(("count/number_of_states",
                         "ElectronicState%s.number_of_states() = %d, expected %d"
                         % (es, nst, want), None))
        sigs = set()
        for a in idx:
            les, lvs = agg.vibsigs[a]
            les = tuple(int(x) for x in les)
            lvs = tuple(int(x) for x in lvs) if lvs is not None else ()
            if les != es or int(agg.elinds[a]) != i:
                viol.append(("count/state-labels",
                             "state %d listed under electronic state %s is labelled %s"
                             % (a, es, les), None))
                bad_count = True
            sigs.add(lvs)
            labels_lib[a] = (les, lvs)
        if sigs != set(F.vib_signatures(spec, es)):
            viol.append(("count/vibrational-signatures",
                         "vibrational signatures of %s are not the full product of the "
                         "declared levels" % (es,), None))
            bad_count = True
    ntot_want = sum(F.state_count(spec, es) for es in want_sigs)
    if int(agg.Ntot) != ntot_want or sum(counts) != ntot_want:
        viol.append(("count/total", "Ntot = %d, expected %d" % (agg.Ntot, ntot_want), None))
        bad_count = True
    for band in range(mult + 1):
        wb = sum(F.state_count(spec, es) for es in want_sigs if sum(es) == band)
        if int(agg.Nb[band]) != wb:
            viol.append(("count/band", "band %d has %d states, expected %d"
                         % (band, agg.Nb[band], wb), None))
    Hl = numpy.asarray(agg.get_Hamiltonian().data)
    Dl = numpy.asarray(agg.get_TransitionDipoleMoment().data)
    Fl = numpy.asarray(agg.FCf)
    if (bad_count or Hl.shape != (ntot_want, ntot_want) or Fl.shape != Hl.shape
            or Dl.shape != (ntot_want, ntot_want, 3) or any(l is None for l in labels_lib)):
        if not bad_count:
            viol.append(("count/matrix-shapes", "H %s FCf %s D %s for %d states"
                         % (Hl.shape, Fl.shape, Dl.shape, ntot_want), None))
        return {"nontrivial": nontrivial, "outcome": ["bad-count", counts],
                "violations": _dedupe(viol)}

    # ---- reference in the library's order of electronic states ---------------
    def reference(sigma):
        return _reference(spec, lib_sigs, labels_lib, sigma, fem)

    offd = ~numpy.eye(ntot_want, dtype=bool)

    # blocks of the Hamiltonian between electronic states that differ on two molecules one of
    # which is in its second excited level: which multiple of the 0-1 resonance coupling
    # applies there is the package's convention, not an input - the electronic quantity is
    # FITTED (one number per block, least squares) and only the product structure (that
    # number x the overlaps of all modes) is claimed
    free_blocks = []
    if max(nlev) > 2:
        members = {}
        for a, (les, _) in enumerate(labels_lib):
            members.setdefault(les, []).append(a)
        for ea in lib_sigs:
            for eb in lib_sigs:
                if ea != eb and not F.el_coupling_defined(ea, eb):
                    free_blocks.append(numpy.ix_(members[ea], members[eb]))

    def compare(sigma):
        FCr, Hr, DDr = reference(sigma)
        for blk in free_blocks:
            B = FCr[blk]
            den = float(numpy.sum(B * B))
            c = float(numpy.sum(numpy.real(Hl[blk]) * B)) / den if den > 0 else 0.0
            Hr[blk] = c * B
        res = {}
        e, k = _maxerr(Fl, FCr)
        res["fcf"] = (e, k, 1.0, Fl, FCr)
        e, k = _maxerr(Hl * offd, Hr * offd)
        sc = max(float(numpy.max(numpy.abs(Hl * offd))), float(numpy.max(numpy.abs(Hr * offd))))
        res["H-coupling"] = (e, k, sc, Hl, Hr)
        e, k = _maxerr(Dl, DDr)
        sc = max(float(numpy.max(numpy.abs(Dl))), float(numpy.max(numpy.abs(DDr))))
        res["dipole"] = (e, k, sc, Dl, DDr)
        ok = all(v[0] <= TOL * max(v[2], 1e-300) for v in res.values())
        return ok, res, Hr

    ok, res, Href = compare(+1)
    sigma = +1
    if not ok:
        ok2, res2, _ = compare(-1)
        if ok2:
            ok, res, sigma = ok2, res2, -1
    for name, (e, k, sc, lib, ref) in res.items():
        dev[name] = e / max(sc, 1e-300) if sc > 0 else e
        if not e <= TOL * max(sc, 1e-300):
            la, lb = (labels_lib[k[0]], labels_lib[k[1]]) if k is not None else (None, None)
            bt = _blocktype(la, lb) if k is not None else "shape"
            viol.append(("%s/%s" % (name, bt),
                         "%s between %s and %s is %s; electronic quantity x product of the "
                         "modes' Franck-Condon overlaps is %s (neither coordinate orientation "
                         "fits)" % (name, la, lb,
                                    numpy.round(lib[k[:2]], 12).tolist() if k is not None else "?",
                                    numpy.round(ref[k[:2]], 12).tolist() if k is not None else "?"),
                         {"err": e, "states": [la, lb]}))
    # ---- diagonal: electronic energy + vibrational ladder ----------------------
    e, k = _maxerr(numpy.diag(Hl), numpy.diag(Href))
    sc = float(numpy.max(numpy.abs(numpy.diag(Href))))
    dev["H-diag"] = e / max(sc, 1e-300)
    if not e <= TOL * max(sc, 1e-300):
        la = labels_lib[k[0]]
        viol.append(("H-diag/band%d" % sum(la[0]),
                     "energy of %s is %.12g, electronic energy + sum n*omega = %.12g"
                     % (la, Hl[k[0], k[0]], Href[k[0], k[0]]), {"err": e}))

    # ---- Poisson distribution from the vibrational ground states -------------
    index = {l: a for a, l in enumerate(labels_lib)}
    g = tuple([0] * nmol)
    nslots = sum(len(mol["modes"]) for mol in spec["mols"])
    zero = tuple([0] * nslots)
    worst_p, worst_o = 0.0, 0.0
    k0 = 0
    for i, mol in enumerate(spec["mols"]):
        ei = tuple(1 if j == i else 0 for j in range(nmol))
        for md in mol["modes"]:
            S = (md["d"][1] - md["d"][0]) ** 2 / 2.0
            for tag, src, dst, n in (("g0-to-e", g, ei, md["n"][1]), ("e0-to-g", ei, g, md["n"][0])):
                pref = F.poisson(S, n)
                a = index[(src, zero)]
                for q in range(n):
                    vs = tuple(q if s == k0 else 0 for s in range(nslots))
                    b = index[(dst, vs)]
                    # other modes of the same molecule contribute their own 0-0 overlap
                    other = 1.0
                    for md2 in mol["modes"]:
                        if md2 is not md:
                            other *= numpy.exp(-((md2["d"][1] - md2["d"][0]) ** 2) / 2.0)
                    err = abs(Fl[a, b] ** 2 - pref[q] * other)
                    worst_p = max(worst_p, err)
                    if not err <= TOL:
                        viol.append(("poisson/%s" % tag,
                                     "|FC|^2 from the vibrational ground state into level %d of "
                                     "mode %d is %.12g, Poisson(S=%g) gives %.12g"
                                     % (q, k0, Fl[a, b] ** 2, S, pref[q] * other), None))
            k0 += 1
        # ---- overlap matrix orthogonal up to truncation -----------------------
        ia = list(agg.vibindices[lib_sigs.index(g)])
        ib = list(agg.vibindices[lib_sigs.index(ei)])
        B = Fl[numpy.ix_(ia, ib)]
        for tag, G, ea, eb, rows in (("rows", B @ B.T, g, ei, ia), ("cols", B.T @ B, ei, g, ib)):
            t_ref = F.block_tails(spec, ea, eb)          # C order of ea's signatures
            order = {vs: q for q, vs in enumerate(F.vib_signatures(spec, ea))}
            t = numpy.array([t_ref[order[labels_lib[a][1]]] for a in rows])
            exc = float(numpy.max(numpy.abs(G - numpy.eye(len(rows))) -
                                  numpy.sqrt(numpy.outer(t, t))))
            worst_o = max(worst_o, exc)
            if not exc <= TOL:
                viol.append(("orth/g-e/%s" % tag,
                             "overlap block g<->%s: |B B^T - 1| exceeds the truncated tail "
                             "weight by %g" % (ei, exc), None))
    dev["poisson"] = worst_p
    dev["orth"] = worst_o

    # ---- later calls on the same Aggregate, then the same observations again ----
    npost = 0
    if case.get("after"):
        if ok:
            npost = _check_after(qr, agg, spec, case, lib_sigs, labels_lib, sigma, fem, mult,
                                 viol, dev)
        else:
            npost = -1

    nsweeps = ncalls = 0
    if "ctx" in case:
        nsweeps, ncalls = _check_coupling_calls(qr, agg, spec, case, labels_lib, lib_sigs,
                                                sigma, viol, dev)
    info = {"dev": dev, "sigma": sigma, "coupling_calls": ncalls}
    molout = None
    if nmol == 1:
        molout = _check_molecule(qr, spec, viol, dev, stage)
    offsum = float(numpy.sum(numpy.abs(Hl * offd)))
    out = ["agg", counts, sigma, round(float(numpy.sum(numpy.abs(Fl))), 7),
           round(offsum, 9), round(float(numpy.sum(numpy.abs(Dl))), 7),
           round(float(numpy.trace(Hl)), 7), molout, case.get("ctx"), ncalls]
    if case.get("after"):
        out.append([list(case["after"]), npost])
    return {"nontrivial": nontrivial, "outcome": out, "violations": _dedupe(viol),
            "info": info, "n": nsweeps + max(npost, 0)}


# --------------------------------------------------------------------------
# later calls on the same (built) Aggregate before the matrices are looked at again
# --------------------------------------------------------------------------
POSTOPS = ["diagonalize", "eigenbasis-read", "state-vector", "density-matrix", "transitions",
           "exciton-analysis", "build-again", "rebuild"]


def _post_op(qr, agg, op, mult, case):
    """One later call on the built aggregate.  Returns "done" or "refused" (the call states
    that it needs a diagonalized aggregate)."""
    try:
        if op == "diagonalize":
            agg.diagonalize()
        elif op == "eigenbasis-read":
            # the operators are looked at in the eigenbasis of the Hamiltonian; the context
            # is left again before the site-basis observation
            H = agg.get_Hamiltonian()
            with qr.eigenbasis_of(H):
                numpy.array(H.data)
                numpy.array(agg.get_TransitionDipoleMoment().data)
        elif op == "state-vector":
            agg.get_StateVector(condition_type="impulsive_excitation")
        elif op == "density-matrix":
            agg.get_DensityMatrix(condition_type="impulsive_excitation")
            agg.get_DensityMatrix(condition_type="thermal", temperature=300.0)
            agg.get_DensityMatrix(condition_type="thermal_excited_state", temperature=300.0)
        elif op == "transitions":
            for a in range(int(agg.Ntot)):
                agg.get_transition(a, 0)
        elif op == "exciton-analysis":
            try:
                agg.get_state_energy(1)
                agg.get_transition_dipole(0, 1)
            except Exception as e:                   # noqa: the stated refusal only
                if "has to be diagonalized" in str(e):
                    return "refused"
                raise
        elif op == "build-again":
            if "fem" in case:
                agg.build(mult=mult, fem_full=bool(case["fem"]))
            else:
                agg.build(mult=mult)
        elif op == "rebuild":
            agg.rebuild(mult=mult)                   # clean() + build()
        else:
            raise isolation.HarnessError("unknown later call %r" % (op,))
    finally:
        isolation.reset_units()
    return "done"


def _state_labels(agg):
    out = []
    for a in range(int(agg.Ntot)):
        les, lvs = agg.vibsigs[a]
        out.append((tuple(int(x) for x in les),
                    tuple(int(x) for x in lvs) if lvs is not None else ()))
    return out


def _check_after(qr, agg, spec, case, lib_sigs, labels0, sigma, fem, mult, viol, dev):
    """case["after"] = sequence of later calls made on the built Aggregate (POSTOPS).  After
    EVERY call of the sequence (no units or basis context open) the Hamiltonian, the dipole
    operator and FCf are looked at again, (a) as retrieved anew from the aggregate and (b)
    through the objects that were retrieved before the calls: all of them still have to be
    electronic quantity x product of the modes' overlaps (the reference of the first
    observation, orientation included).  Stops at the first call after which something is
    off.  Returns the number of re-observations."""
    held = (agg.get_Hamiltonian(), agg.get_TransitionDipoleMoment(), agg.FCf)
    ref0 = _reference(spec, lib_sigs, labels0, sigma, fem)
    nobs = 0
    done = []
    for op in case["after"]:
        status = _post_op(qr, agg, op, mult, case)
        done.append(op if status == "done" else op + "(refused)")
        labels = _state_labels(agg)
        if labels == labels0:
            ref = ref0
        elif sorted(labels) == sorted(labels0):
            ref = _reference(spec, lib_sigs, labels, sigma, fem)
        else:
            viol.append(("post-build/%s/state-labels" % op,
                         "after the calls %s the aggregate carries other vibronic states than "
                         "after the build" % (done,), None))
            return nobs
        fresh = (agg.get_Hamiltonian(), agg.get_TransitionDipoleMoment(), agg.FCf)
        bad = False
        for how, objs, rf, lab in (("retrieved-after", fresh, ref, labels),
                                   ("held-from-before", held, ref0, labels0)):
            got = {"H": numpy.asarray(objs[0].data), "dipole": numpy.asarray(objs[1].data),
                   "fcf": numpy.asarray(objs[2])}
            want = {"H": rf[1], "dipole": rf[2], "fcf": rf[0]}
            for name in ("fcf", "H", "dipole"):
                e, k = _maxerr(got[name], want[name])
                sc = max(float(numpy.max(numpy.abs(want[name]))), 1e-300)
                dn = "post-build-%s" % name
                if numpy.isfinite(e):
                    dev[dn] = max(dev.get(dn, 0.0), e / sc)
                nobs += 1
                if not e <= TOL * sc:
                    bad = True
                    la, lb = (lab[k[0]], lab[k[1]]) if k is not None else (None, None)
                    viol.append(("post-build/%s/%s/%s" % (op, name, how),
                                 "after the later calls %s on the built aggregate, %s (%s) "
                                 "between %s and %s is %s; electronic quantity x product of "
                                 "the modes' Franck-Condon overlaps is %s"
                                 % (done, name,
                                    "retrieved again from the aggregate"
                                    if how == "retrieved-after"
                                    else "object retrieved before the calls",
                                    la, lb,
                                    numpy.round(got[name][k[:2]], 12).tolist()
                                    if k is not None else "shape %s" % (got[name].shape,),
                                    numpy.round(want[name][k[:2]], 12).tolist()
                                    if k is not None else "shape %s" % (want[name].shape,)),
                                 {"err": e, "calls": done}))
        if bad:
            break
    return nobs


# --------------------------------------------------------------------------
# direct calls Aggregate.coupling(state1, state2[, full=True]) in a call context
# --------------------------------------------------------------------------
_H, _E, _C = 6.62607015e-34, 1.602176634e-19, 299792458.0     # SI definitions (exact)
UNIT = {"int": 1.0,                                           # internal unit: rad/fs
        "1/cm": 2.0 * numpy.pi * _C * 1.0e-13,
        "THz": 2.0 * numpy.pi * 1.0e-3,
        "eV": 1.0e-15 * _E * 2.0 * numpy.pi / _H,
        "meV": 1.0e-18 * _E * 2.0 * numpy.pi / _H}
CTX_NAME = {"none": "no-context", "int": "int", "1/cm": "per-cm", "THz": "THz", "eV": "eV",
            "meV": "meV"}
MADE = ["outside", "inside"]


class _NoContext(object):
    def __enter__(self):
        return self

    def __exit__(self, *a):
        return False


def _check_coupling_calls(qr, agg, spec, case, labels_lib, lib_sigs, sigma, viol, dev):
    """Aggregate.coupling(s1, s2) and Aggregate.coupling(s1, s2, full=True) for ALL ordered
    pairs of vibronic states of the built aggregate, called inside the energy-units context
    case["ctx"] ("none": no context at all), with VibronicState objects obtained from
    Aggregate.get_VibronicState before entering the context ("outside") and inside it
    ("inside").  coupling() returns its result in the CURRENT energy units
    (`return self.convert_energy_2_current_u(coup)`), so the value has to be

        J_kl[current units] x product over all modes of the Franck-Condon overlaps

    with J_kl[current units] = J_kl[internal]/UNIT[ctx] (conversion factors from the SI
    definitions, independent of the package); full=True adds the couplings between bands
    that differ by two excitations.  Returns (number of complete sweeps over all pairs,
    number of coupling() calls compared)."""
    ctx = case["ctx"]
    ku = 1.0 if ctx == "none" else UNIT[ctx]
    n = len(labels_lib)
    refs = {}
    for full in (False, True):
        labels, _, H, _ = F.aggregate_reference(spec, lib_sigs, sigma, full=full)
        pos = {l: k for k, l in enumerate(labels)}
        perm = numpy.array([pos[l] for l in labels_lib])
        R = H[numpy.ix_(perm, perm)] / ku
        R[numpy.diag_indices(n)] = 0.0                  # a state is not coupled to itself
        refs[full] = R

    def make():
        return [agg.get_VibronicState(es, vs) for (es, vs) in labels_lib]

    ncalls = nsweeps = 0
    for made in MADE:
        states = make() if made == "outside" else None
        got = {}
        try:
            with (_NoContext() if ctx == "none" else qr.energy_units(ctx)):
                if made == "inside":
                    states = make()
                for full in (False, True):
                    C = numpy.zeros((n, n), dtype=complex)
                    for a in range(n):
                        for b in range(n):
                            if full:
                                C[a, b] = agg.coupling(states[a], states[b], full=True)
                            else:
                                C[a, b] = agg.coupling(states[a], states[b])
                    got[full] = C
                    ncalls += n * n
                    nsweeps += 1
        finally:
            isolation.reset_units()
        for full in (False, True):
            C, R = got[full], refs[full]
            e, k = _maxerr(C, R)
            fin = numpy.abs(C[numpy.isfinite(C)])
            sc = max(float(numpy.max(numpy.abs(R))), float(numpy.max(fin)) if fin.size else 0.0)
            name = "coupling-call-%s" % CTX_NAME[ctx]
            dev[name] = max(dev.get(name, 0.0), e / sc if sc > 0 else e)
            if not e <= TOL * max(sc, 1e-300):
                la, lb = labels_lib[k[0]], labels_lib[k[1]]
                viol.append(("coupling-call/%s/%s/full=%s/states-made-%s"
                             % (CTX_NAME[ctx], _blocktype(la, lb), full, made),
                             "Aggregate.coupling(%s, %s%s) called %s returns %s; resonance "
                             "coupling in those units x product of the modes' Franck-Condon "
                             "overlaps is %.12g (states made %s the context)"
                             % (la, lb, ", full=True" if full else "",
                                "without a units context" if ctx == "none"
                                else "inside energy_units('%s')" % ctx,
                                C[k], R[k], made),
                             {"err": e, "states": [la, lb], "units": ctx}))
    return nsweeps, ncalls


def _check_molecule_elements(m, mol, data, scale, viol, dev):
    """Every element of Molecule.get_Hamiltonian between all pairs of quantum-number tuples
    against the SUM over the modes of one-mode displaced-oscillator Hamiltonians (each the
    identity on all other modes), mc/refmodels/fc_laguerre.molecule_hamiltonian.  The zero of
    energy is not claimed (one common constant on the diagonal is fitted); either orientation
    of the coordinates is accepted, the same one for all modes and electronic states."""
    labels, _ = F.molecule_hamiltonian(mol["E"], mol["modes"], 1)
    # order of the states: the molecule's own list of (electronic state, quantum numbers) if
    # it is the complete product; electronic state major / C order otherwise
    perm = None
    try:
        lib_labels = [(int(e), tuple(int(x) for x in vs)) for (e, vs) in m.all_states]
        if sorted(lib_labels) == sorted(labels) and len(lib_labels) == len(labels):
            pos = {l: k for k, l in enumerate(labels)}
            perm = numpy.array([pos[l] for l in lib_labels])
            labels = lib_labels
    except (AttributeError, TypeError, ValueError):
        perm = None
    n = len(labels)
    offd = ~numpy.eye(n, dtype=bool)
    best = None
    for sigma in (+1, -1):
        _, Href = F.molecule_hamiltonian(mol["E"], mol["modes"], sigma)
        if perm is not None:
            Href = Href[numpy.ix_(perm, perm)]
        c = float(numpy.median(numpy.diag(data) - numpy.diag(Href)))
        diff = numpy.abs(data - Href - c * numpy.eye(n))
        if not numpy.all(numpy.isfinite(diff)):
            diff = numpy.where(numpy.isfinite(diff), diff, numpy.inf)
        k = numpy.unravel_index(int(numpy.argmax(diff)), diff.shape)
        cand = (float(diff[k]), k, Href, c, sigma)
        if best is None or cand[0] < best[0]:
            best = cand
        if cand[0] <= TOL * scale:
            break
    err, k, Href, c, sigma = best
    dev["mol-H-elements"] = err / max(scale, 1e-300)
    if not err <= TOL * scale:
        la, lb = labels[k[0]], labels[k[1]]
        if la[0] != lb[0]:
            kind = "between-electronic-states"
        else:
            kind = "tuples-differing-in-%d-modes" % sum(1 for x, y in zip(la[1], lb[1]) if x != y)
        viol.append(("mol-H/elements/%s" % kind,
                     "<%s|H|%s> = %.12g; sum over the modes of one-mode displaced-oscillator "
                     "Hamiltonians (identity on the other modes) gives %.12g (%d modes, "
                     "neither coordinate orientation fits)"
                     % (la, lb, data[k] - (c if k[0] == k[1] else 0.0), Href[k],
                        len(mol["modes"])),
                     {"err": err, "states": [list(la), list(lb)]}))


def _check_molecule(qr, spec, viol, dev, stage="fresh"):
    """Molecule.get_Hamiltonian on a fresh molecule: dimension, no coupling between
    electronic states, spectrum.  With a history of settings the molecule receives the same
    history; in the stages where something was built from the earlier settings the
    Hamiltonian is first retrieved with those and then again with recalculate=True (the
    documented way to obtain it for changed parameters; the stored object is not claimed)."""
    mol = spec["mols"][0]
    seen = stage in ("after-mol-H", "after-build")
    m = _molecule(qr, mol, [], {}, "after-mol-H" if seen else "fresh")
    two_phase = any(md.get("hist") for md in mol["modes"])
    H = m.get_Hamiltonian(recalculate=True) if (seen and two_phase) else m.get_Hamiltonian()
    isolation.reset_units()
    data = numpy.asarray(H.data)
    nel = len(mol["E"])
    dims = [F.state_count({"mols": [mol]}, (e,)) for e in range(nel)]
    if data.shape != (sum(dims), sum(dims)):
        viol.append(("mol-H/dimension", "Molecule Hamiltonian is %s, electronic states carry "
                     "%s vibronic states" % (data.shape, dims), None))
        return "bad-dim"
    scale = float(numpy.max(numpy.abs(data)))
    asym = float(numpy.max(numpy.abs(data - data.T)))
    inblock = numpy.zeros(data.shape, dtype=bool)
    o = 0
    for n in dims:
        inblock[o:o + n, o:o + n] = True
        o += n
    offb = float(numpy.max(numpy.abs(data[~inblock]))) if (~inblock).any() else 0.0
    dev["mol-H-offblock"] = max(asym, offb) / max(scale, 1e-300)
    if asym > TOL * scale:
        viol.append(("mol-H/not-symmetric", "asymmetry %g" % asym, None))
    if offb > TOL * scale:
        viol.append(("mol-H/electronic-offblock-nonzero",
                     "elements between electronic states up to %g without any diabatic "
                     "coupling" % offb, None))
    _check_molecule_elements(m, mol, data, scale, viol, dev)
    sym = 0.5 * (data + data.T)
    trunc, exact, gbound, box = F.molecule_spectrum(mol["E"], mol["modes"])
    ref_all = numpy.sort(numpy.concatenate(trunc))
    lib_all = numpy.linalg.eigvalsh(sym)
    e, _ = _maxerr(lib_all - lib_all[0], ref_all - ref_all[0])
    dev["mol-H-spectrum"] = e / max(scale, 1e-300)
    if not e <= TOL * scale:
        viol.append(("mol-H/spectrum/truncated-displaced-oscillator",
                     "spectrum differs by %g from that of omega(a+a - dQ + d^2/2 + 1/2) "
                     "on the declared levels" % e, {"lib": (lib_all - lib_all[0]).tolist(),
                                                    "ref": (ref_all - ref_all[0]).tolist()}))
    c = ref_all[0] - lib_all[0]          # the library puts its lowest level at zero
    off = 0
    worst_t = 0.0
    for es in range(nel):
        lam = numpy.linalg.eigvalsh(sym[off:off + dims[es], off:off + dims[es]]) + c
        off += dims[es]
        undisplaced = all(md["d"][es] == 0.0 for md in mol["modes"])
        if undisplaced:
            e, _ = _maxerr(lam, box[es])
            dev["mol-H-ladder"] = max(dev.get("mol-H-ladder", 0.0), e / max(scale, 1e-300))
            if not e <= TOL * scale:
                viol.append(("mol-H/spectrum/undisplaced-ladder",
                             "electronic state %d: levels differ from E + sum (n+1/2) omega "
                             "by %g" % (es, e), None))
        else:
            # Ritz values of a truncation lie above the exact displaced-oscillator levels
            low = float(numpy.min(lam - exact[es]))
            if low < -TOL * scale:
                viol.append(("mol-H/spectrum/below-exact-levels",
                             "electronic state %d: a level lies %g below the exact "
                             "displaced-oscillator level" % (es, -low), None))
            exc = float(lam[0] - exact[es][0]) - gbound[es]
            worst_t = max(worst_t, exc / max(scale, 1e-300))
            if exc > TOL * scale:
                viol.append(("mol-H/spectrum/ground-level-truncation-bound",
                             "electronic state %d: lowest level exceeds E + sum omega/2 by %g, "
                             "truncation bound sum omega S p_{N-1}/(1-t_N) = %g"
                             % (es, float(lam[0] - exact[es][0]), gbound[es]), None))
    dev["mol-H-trunc-excess"] = worst_t
    return [int(sum(dims)), round(float(lib_all[-1] - lib_all[0]), 8)]


# --------------------------------------------------------------------------
def eval_mol(case):
    """One molecule, Molecule.get_Hamiltonian only (no aggregate): modes whose frequency in
    the excited electronic state differs from the ground-state one.  Every electronic state e
    carries, per mode, w(e)(a+a - d(e) Q + d(e)^2/2 + 1/2) with ITS frequency w(e) - the
    zero-point energies w(e)/2 included, so that the distance between the vibronic ladders of
    two electronic states contains the change of the zero-point energy."""
    qr = isolation.qr()
    viol, dev = [], {}
    spec = _spec(case)
    if len(spec["mols"]) != 1:
        raise isolation.HarnessError("kind 'mol' is a one-molecule case")
    mol = spec["mols"][0]
    _molecule(qr, mol, viol, dev)                    # set/get round trips are reported here
    molout = _check_molecule(qr, spec, viol, dev)
    changed = any(md.get("ws") is not None and md["ws"][1] != md["ws"][0]
                  for md in mol["modes"])
    shifted = any(md["d"][1] != md["d"][0] and md["n"][0] * md["n"][1] > 1
                  for md in mol["modes"])
    out = ["mol", molout, [[md.get("ws"), md.get("wroute")] for md in mol["modes"]]]
    return {"nontrivial": changed or shifted, "outcome": out, "violations": _dedupe(viol),
            "info": {"dev": dev}}


def eval_case(case):
    if case["kind"] == "shiftop":
        return eval_shiftop(case)
    if case["kind"] == "mol":
        return eval_mol(case)
    return eval_agg(case)


def replay(case):
    return eval_case(case)["violations"]


# --------------------------------------------------------------------------
# alphabets
# --------------------------------------------------------------------------
def _slot_alphabet(shifts, levels):
    """complete product (S, sign) x (n0, n1); simplest first."""
    out = []
    for (S, sg) in shifts:
        for (n0, n1) in levels:
            out.append({"S": S, "sg": sg, "n0": n0, "n1": n1})
    return out


def _signed(Ss):
    out = []
    for S in Ss:
        out.append((S, 1))
        if S > 0:
            out.append((S, -1))
    return out


def _pairs(levels):
    return [(a, b) for a in levels for b in levels]


def _section(nm, alphabet, extra, constraint=None):
    """All cases of one aggregate shape: every slot takes every value of the alphabet."""
    nslots = sum(nm)
    dom = {}
    for k in range(nslots):
        dom["slot%d" % k] = alphabet
    dom.update(extra)
    out = []
    for c in product(dom, constraint):
        case = {"kind": "agg", "nm": list(nm), "slots": [c["slot%d" % k] for k in range(nslots)]}
        for key in extra:
            case[key] = c[key]
        out.append(case)
    return out


# --------------------------------------------------------------------------
# histories of settings on the same Mode object
# --------------------------------------------------------------------------
def _settings(hrs, routes, levels):
    """alphabet of single settings: complete product (route, Huang-Rhys factor[, sign]) x
    (levels in g, levels in e).  Route "shift" takes both signs (one value for HR = 0)."""
    out = []
    for r in routes:
        for S in hrs:
            for sg in ((1, -1) if (r == "shift" and S > 0) else (1,)):
                for (n0, n1) in levels:
                    out.append({"r": r, "S": S, "sg": sg, "n0": n0, "n1": n1})
    return out


def _histories(settings, length):
    """ALL sequences of `length` settings from the alphabet (ordered, repetitions included):
    the last one is the slot's final setting, the ones before are its history."""
    seqs = [[]]
    for _ in range(length):
        seqs = [q + [st] for q in seqs for st in settings]
    return [dict(q[-1], hist=[dict(st) for st in q[:-1]]) for q in seqs]


J1, J2 = 0.02, -0.035
FEM = [False, True]


# --------------------------------------------------------------------------
# nearly equal Huang-Rhys factors / very small ones
# --------------------------------------------------------------------------
def _near(S0, eps):
    """Huang-Rhys factors S0 and S0(1+e) for the relative offsets e (shift differences of
    about sqrt(S0/2) e), simplest first"""
    return [S0] + [S0 * (1.0 + e) for e in eps]


def _after_sequences(ops, length):
    """ALL sequences of `length` later calls (ordered, repetitions included)"""
    seqs = [[]]
    for _ in range(length):
        seqs = [q + [o] for q in seqs for o in ops]
    return seqs


# --------------------------------------------------------------------------
# three-level molecules / modes with another frequency in the excited state
# --------------------------------------------------------------------------
def _slot_alphabet3(shifts1, shifts2, levels):
    """complete product (S, sign) of level 1 x (S, sign) of level 2 x (n0, n1, n2)"""
    return [{"S": S, "sg": sg, "S2": S2, "sg2": sg2, "n0": n0, "n1": n1, "n2": n2}
            for (S, sg) in shifts1 for (S2, sg2) in shifts2 for (n0, n1, n2) in levels]


def _section_lev(nm, lev, a2, a3, extra):
    """All cases of one aggregate shape with lev[i] electronic levels on molecule i: every
    mode slot of a two-level molecule takes every value of a2, every slot of a three-level
    molecule every value of a3."""
    dom, k = {}, 0
    for i, nmod in enumerate(nm):
        for _ in range(nmod):
            dom["slot%d" % k] = a3 if lev[i] == 3 else a2
            k += 1
    dom.update(extra)
    out = []
    for c in product(dom):
        case = {"kind": "agg", "nm": list(nm), "lev": list(lev),
                "slots": [c["slot%d" % q] for q in range(k)]}
        for key in extra:
            case[key] = c[key]
        out.append(case)
    return out


def _freq_alphabet(shifts, levels, ratios, routes):
    """complete product (S, sign) x (n0, n1) x frequency ratio w_e/w_g x route by which the
    excited-state frequency is set"""
    return [{"S": S, "sg": sg, "n0": n0, "n1": n1, "wr": wr, "wroute": rt}
            for (S, sg) in shifts for (n0, n1) in levels for wr in ratios for rt in routes]


def _mol_section(nmodes, alphabet, extra):
    return [dict(c, kind="mol") for c in _section([nmodes], alphabet, extra)]


WROUTES = ["set_energy", "set_all"]


# --------------------------------------------------------------------------
# many modes with (up to) pairwise different Huang-Rhys factors in one aggregate
# --------------------------------------------------------------------------
MANY_SHAPES = ["1-mode-per-molecule", "2-modes-per-molecule"]
MANY_LEVELS = {"g1-e2": lambda k: (1, 2),                    # levels of slot k
               "first-two-g2-e2": lambda k: (2, 2) if k < 2 else (1, 2),
               "g1-e3": lambda k: (1, 3)}
MANY_SIGNS = {"plus": lambda k: 1, "alternating": lambda k: 1 if k % 2 == 0 else -1}


def _many_case(nslots, ndistinct, shape, levels, signs, J):
    """nslots mode slots; slot k has the Huang-Rhys factor number (k mod ndistinct) of the
    ladder 0.1, 0.2, 0.3, ... (ndistinct pairwise different values in the aggregate), its own
    frequency, levels and sign of the shift by pattern."""
    per = 1 if shape == "1-mode-per-molecule" else 2
    if nslots % per:
        return None
    slots = []
    for k in range(nslots):
        n0, n1 = MANY_LEVELS[levels](k)
        slots.append({"S": round(0.1 * (1 + k % ndistinct), 10), "sg": MANY_SIGNS[signs](k),
                      "n0": n0, "n1": n1, "w": round(0.05 + 0.005 * k, 10)})
    return {"kind": "agg", "nm": [per] * (nslots // per), "slots": slots, "J": J, "mult": 1,
            "many": {"slots": nslots, "distinct": ndistinct, "shape": shape, "levels": levels,
                     "signs": signs}}


def _many(nmax, shapes, levels, signs, Js):
    """complete product number of slots 1..nmax x number of distinct Huang-Rhys factors
    1..slots x shape x level pattern x sign pattern x resonance coupling (0: uncoupled
    molecules, the overlaps and dipoles alone)"""
    out = []
    for n in range(1, nmax + 1):
        for nd in range(1, n + 1):
            for sh in shapes:
                for lv in levels:
                    for sg in signs:
                        for J in Js:
                            c = _many_case(n, nd, sh, lv, sg, J)
                            if c is not None:
                                out.append(c)
    return out


def _shiftop_direct(Ss, Ns):
    """complete product basis size x Huang-Rhys factor x argument class of the direct call
    operator_factory(N).shift_operator(d), |d|^2/2 = S (S = 0: one phase, d = 0)."""
    return [{"kind": "shiftop", "S": S, "N": N, "ph": ph}
            for N in Ns for S in Ss for ph in PHASES if (S > 0 or ph == PHASES[0])]


def sections(tier):
    """name -> list of cases (each the complete product of its alphabets)."""
    sec = {}
    if tier == "quick":
        sec["shiftop"] = [{"kind": "shiftop", "S": S, "sg": sg, "N": "default"}
                          for (S, sg) in _signed([0, 0.01, 0.1, 0.5, 1, 2])]
        sec["shiftop-direct"] = _shiftop_direct([0, 0.01, 0.1, 0.5, 1, 2], ["default"])
        full = _slot_alphabet(_signed([0, 0.01, 0.1, 0.5, 1, 2]), _pairs([1, 2, 3, 5]))
        q16 = _slot_alphabet([(0, 1), (0.1, 1), (0.5, -1), (1, 1)],
                             [(2, 2), (1, 2), (3, 2), (2, 3)])
        q6 = _slot_alphabet([(0, 1), (0.5, -1), (1, 1)], [(2, 2), (1, 3)])
        sec["1mol-1mode"] = _section([1], full, {"d0": [0.0, 0.3]})
        sec["1mol-2modes"] = _section([2], q16, {"wset": ["A", "B"]})
        # three modes on one molecule: all quantum-number tuples (Molecule.get_Hamiltonian
        # element-wise against the sum over modes of one-mode Hamiltonians)
        sec["1mol-3modes"] = _section([3], q6, {"d0": [0.0, 0.3]})
        sec["2mol-1mode"] = _section([1, 1], q16, {"J": [0.0, J1], "mult": [1, 2]})
        sec["2mol-uneven"] = (_section([1, 0], q16, {"J": [J1]}) +
                              _section([0, 1], q16, {"J": [J1]}) +
                              _section([2, 1], q6, {"J": [J1]}))
        sec["2mol-2modes"] = _section([2, 2], q6, {"J": [J1]})
        q4 = _slot_alphabet([(0.5, -1), (1, 1)], [(2, 2), (1, 3)])
        sec["3mol-1mode"] = _section([1, 1, 1], q4, {"J": [J1], "mult": [1, 2]})
        sec["limit"] = [{"kind": "agg", "nm": [1], "slots": [{"S": 0.5, "sg": 1, "n0": n0, "n1": n1}]}
                        for (n0, n1) in ((2, 21), (21, 2))]
        sec["second-build"] = (_section([1], q16, {"d0": [0.0], "history": ["second-build"]}) +
                               _section([1, 1], q6, {"J": [J1], "history": ["second-build"]}))
        # many declared levels / large Huang-Rhys factors (the upper end of the 20-level table)
        hi = _slot_alphabet([(1, 1), (3, -1), (6, 1)], [(12, 20), (20, 12), (20, 20), (2, 16)])
        sec["1mol-many-levels"] = _section([1], hi, {"d0": [0.0]})
        # build option fem_full (couplings between bands that differ by two excitations) x
        # multiplicity
        q2 = _slot_alphabet([(0.5, -1), (1, 1)], [(2, 2)])
        sec["fem-full"] = (_section([1, 1], q6, {"J": [J1], "mult": [1, 2], "fem": FEM}) +
                           _section([2, 1], q4, {"J": [J1], "mult": [1, 2], "fem": FEM}) +
                           _section([1, 1, 1], q4, {"J": [J1], "mult": [1, 2], "fem": FEM}) +
                           _section([1, 1, 1], q2, {"J": [J1], "mult": [3], "fem": FEM}))
        # direct calls Aggregate.coupling(s1, s2[, full=True]) for all pairs of vibronic states
        # x call context (energy units) x states made inside/outside the context
        ctx = ["none", "int", "1/cm", "eV"]
        sec["coupling-call"] = (_section([1, 1], q6, {"J": [J1], "mult": [1, 2], "ctx": ctx}) +
                                _section([2, 1], q4, {"J": [J1], "mult": [2], "ctx": ctx}) +
                                _section([1, 1, 1], q2, {"J": [J1], "mult": [2], "ctx": ctx}))
        # HISTORIES of settings on the same Mode objects before the build: every mode slot
        # independently takes every ordered pair (triple) of settings of its alphabet
        # (repetitions included); x stage at which the final setting is made
        HRH = [0, 0.3, 0.6]
        ROUTES = ["HR", "shift", "all"]
        L1, L2 = [(2, 2)], [(2, 2), (1, 3)]
        sec["history-1mol"] = (
            _section([1], _histories(_settings(HRH, ROUTES, L2), 2), {"stage": ["fresh"]}) +
            _section([1], _histories(_settings(HRH, ROUTES, L1), 2), {"stage": STAGES[1:]}) +
            _section([1], _histories(_settings(HRH, ["HR"], L1), 3),
                     {"d0": [0.0, 0.3], "stage": ["fresh", "after-build"]}))
        sec["history-1mol-2modes"] = _section([2], _histories(_settings(HRH, ["HR"], L1), 2),
                                              {"stage": ["fresh"]})
        sec["history-2mol"] = _section([1, 1], _histories(_settings(HRH, ["HR"], L1), 2),
                                       {"J": [J1], "stage": ["fresh", "in-aggregate",
                                                             "after-build"]})
        # nearly equal (and very small) Huang-Rhys factors on the modes of one aggregate:
        # every slot independently takes every value, so both orders of every pair occur
        nd = _slot_alphabet(_signed([0, 1e-11, 1e-7] + _near(0.5, [1e-7, 1e-5, 1e-3])),
                            [(2, 3)])
        nd3 = _slot_alphabet([(S, 1) for S in [1e-7] + _near(0.5, [1e-7, 1e-3])], [(2, 2)])
        sec["near-degenerate"] = (
            _section([1, 1], nd, {"J": [J1], "d0": [0.0]}) +
            _section([2], nd, {"wset": ["B"], "d0": [0.3]}) +
            _section([1, 1, 1], nd3, {"J": [J1]}) +
            _section([1, 1], q6, {"J": [J1], "history": ["second-build"],
                                  "delta": [1e-4, 1e-7]}))
        # many modes with up to pairwise different Huang-Rhys factors in one aggregate
        sec["many-shifts"] = _many(9, MANY_SHAPES, ["first-two-g2-e2"], ["alternating"],
                                   [0.0, J1])
        # molecules with THREE electronic levels (a second excited level with its own
        # displacement, level count and transition dipoles 1-2 and 0-2) in the aggregate
        a2 = _slot_alphabet([(0.5, -1), (1, 1)], [(2, 2), (1, 3)])
        a3 = _slot_alphabet3([(0.5, -1), (1, 1)], [(0.3, 1), (0.8, -1)], [(2, 2, 2), (1, 3, 2)])
        a3s = _slot_alphabet3([(0.5, -1), (1, 1)], [(0.3, 1), (0.8, -1)], [(2, 2, 2)])
        sec["three-level"] = (
            _section_lev([1], [3], a2, a3, {"mult": [1, 2], "dip3": DIP3}) +
            _section_lev([1, 1], [3, 2], a2, a3, {"J": [J1], "mult": [2], "dip3": DIP3[:2]}) +
            _section_lev([1, 1], [2, 3], a2, a3, {"J": [J1], "mult": [2], "dip3": DIP3[:2]}) +
            _section_lev([1, 1], [3, 3], a2, a3s, {"J": [J1], "mult": [2], "dip3": DIP3[:2]}))
        # modes with another frequency in the excited electronic state (one molecule,
        # Molecule.get_Hamiltonian)
        sec["mol-frequency"] = (
            _mol_section(1, _freq_alphabet([(0, 1), (0.5, -1), (1, 1)],
                                           [(2, 2), (1, 3), (3, 2)], [1.0, 0.8, 1.4], WROUTES),
                         {"d0": [0.0, 0.3]}) +
            _mol_section(2, _freq_alphabet([(0, 1), (1, 1)], [(2, 2)], [1.0, 0.8, 1.4], WROUTES),
                         {"wset": ["A"]}))
        # later calls on the built aggregate, then the same observations again: all ordered
        # pairs of later calls (observed after each of the two)
        sec["post-build"] = [dict(c, after=q)
                             for q in _after_sequences(POSTOPS, 2)
                             for c in _section([1, 1], q2, {"J": [J1], "mult": [1, 2]})]
    else:
        sec["shiftop"] = [{"kind": "shiftop", "S": S, "sg": sg, "N": N}
                          for N in ("default", 150)
                          for (S, sg) in _signed([0, 0.01, 0.1, 0.25, 0.5, 1, 2, 3, 5, 8])]
        sec["shiftop-direct"] = _shiftop_direct([0, 0.01, 0.1, 0.25, 0.5, 1, 2, 3, 5, 8],
                                                ["default", 150])
        full = _slot_alphabet(_signed([0, 0.01, 0.1, 0.5, 1, 2, 3]), _pairs([1, 2, 3, 5, 8, 20]))
        t96 = _slot_alphabet([(0, 1), (0.1, 1), (0.5, -1), (1, 1), (2, 1)],
                             _pairs([1, 2, 3, 5]))          # 80 values per slot
        t9 = _slot_alphabet([(0, 1), (0.5, -1), (1, 1)], [(2, 2), (1, 3), (3, 2)])
        t6 = _slot_alphabet([(0, 1), (0.5, -1), (1, 1)], [(2, 2), (1, 3)])
        sec["1mol-1mode"] = []
        for w in (0.05, 0.11):
            a = [dict(s, w=w) for s in full]
            sec["1mol-1mode"] += _section([1], a, {"d0": [0.0, 0.3, -0.6]})
        sec["1mol-2modes"] = _section([2], t96, {"wset": ["A", "B"]})
        sec["1mol-3modes"] = _section([3], t9, {"d0": [0.0, 0.3], "wset": ["A", "B"]})
        sec["1mol-4modes"] = _section([4], t6, {"d0": [0.0, 0.3]})
        sec["2mol-1mode"] = _section([1, 1], t96, {"J": [0.0, J1, J2], "mult": [1, 2]},
                                     lambda c: (c["J"], c["mult"]) in ((0.0, 1), (J1, 1), (J2, 2)))
        sec["2mol-uneven"] = (_section([1, 0], t96, {"J": [J1]}) +
                              _section([0, 1], t96, {"J": [J1]}) +
                              _section([2, 1], t9, {"J": [J1], "mult": [1, 2]}) +
                              _section([1, 2], t9, {"J": [J1]}) +
                              _section([0, 2], t9, {"J": [J1]}))
        sec["2mol-2modes"] = _section([2, 2], t9, {"J": [J1]})
        sec["3mol-1mode"] = _section([1, 1, 1], t9, {"J": [J1], "mult": [1, 2]})
        sec["3mol-uneven"] = _section([1, 0, 2], t6, {"J": [J1], "mult": [1, 2]})
        sec["limit"] = [{"kind": "agg", "nm": [1], "slots": [{"S": 0.5, "sg": 1, "n0": n0, "n1": n1}]}
                        for (n0, n1) in ((2, 21), (21, 2), (25, 25))]
        t20 = _slot_alphabet([(0, 1), (0.1, 1), (0.5, -1), (1, 1), (2, 1)],
                             [(2, 2), (1, 3), (3, 2), (2, 3)])
        t4 = _slot_alphabet([(0.5, -1), (1, 1)], [(2, 2), (1, 3)])
        sec["fem-full"] = (_section([1, 1], t20, {"J": [J1, J2], "mult": [1, 2], "fem": FEM}) +
                           _section([2, 1], t9, {"J": [J1], "mult": [1, 2], "fem": FEM}) +
                           _section([1, 2], t6, {"J": [J1], "mult": [1, 2], "fem": FEM}) +
                           _section([2, 2], t6, {"J": [J1], "mult": [2], "fem": FEM}) +
                           _section([1, 1, 1], t9, {"J": [J1], "mult": [1, 2, 3], "fem": FEM}) +
                           _section([1, 0, 2], t6, {"J": [J1], "mult": [2, 3], "fem": FEM}))
        ctx = ["none", "int", "1/cm", "eV", "THz", "meV"]
        sec["coupling-call"] = (
            _section([1, 1], t20, {"J": [J1, J2], "mult": [1, 2], "ctx": ctx}) +
            _section([2, 1], t6, {"J": [J1], "mult": [1, 2], "ctx": ctx}) +
            _section([1, 2], t6, {"J": [J1], "mult": [2], "ctx": ctx}) +
            _section([2, 2], t4, {"J": [J1], "mult": [2], "ctx": ctx}) +
            _section([1, 1, 1], t6, {"J": [J1], "mult": [1, 2], "ctx": ctx}) +
            _section([1, 1, 1], t4, {"J": [J1], "mult": [3], "ctx": ctx}))
        HRH = [0, 0.3, 0.6]
        ROUTES = ["HR", "shift", "all"]
        L1, L2, L3 = [(2, 2)], [(2, 2), (1, 3)], [(2, 2), (1, 3), (3, 2)]
        sec["history-1mol"] = (
            _section([1], _histories(_settings([0, 0.3, 0.5, 0.6], ROUTES, L3), 2),
                     {"stage": STAGES}) +
            _section([1], _histories(_settings(HRH, ROUTES, L2), 3), {"stage": ["fresh"]}) +
            _section([1], _histories(_settings(HRH, ROUTES, L1), 3),
                     {"d0": [0.3], "stage": STAGES[1:]}))
        sec["history-1mol-2modes"] = (
            _section([2], _histories(_settings(HRH, ["HR"], L2), 2),
                     {"stage": ["fresh", "after-mol-H"]}) +
            _section([2], _histories(_settings(HRH, ["HR"], L1), 3), {"stage": ["fresh"]}))
        sec["history-2mol"] = (
            _section([1, 1], _histories(_settings(HRH, ["HR"], L2), 2),
                     {"J": [J1], "stage": ["fresh", "in-aggregate", "after-build"]}) +
            _section([1, 1], _histories(_settings(HRH, ["HR", "shift"], L1), 2),
                     {"J": [J2], "mult": [2], "stage": ["fresh", "after-build"]}) +
            _section([1, 1], _histories(_settings(HRH, ["HR"], L1), 3),
                     {"J": [J1], "stage": ["fresh", "after-build"]}))
        eps = [1e-8, 1e-7, 1e-6, 1e-5, 1e-4, 1e-3, 1e-2]
        nd = _slot_alphabet(_signed([0, 1e-13, 1e-11, 1e-9, 1e-7, 1e-5] + _near(0.5, eps)),
                            [(2, 3)])
        nd2 = _slot_alphabet(_signed([0, 1e-11, 1e-7] + _near(0.1, [1e-7, 1e-5, 1e-3]) +
                                     _near(2.0, [1e-7, 1e-5, 1e-3])), [(3, 2)])
        nd3 = _slot_alphabet([(S, sg) for S in [1e-7] + _near(0.5, [1e-7, 1e-5, 1e-3])
                              for sg in (1, -1)], [(2, 2)])
        sec["near-degenerate"] = (
            _section([1, 1], nd, {"J": [J1], "d0": [0.0, 0.3]}) +
            _section([1, 1], nd2, {"J": [J2], "mult": [2]}) +
            _section([2], nd, {"wset": ["A", "B"]}) +
            _section([1, 1, 1], nd3, {"J": [J1]}) +
            _section([1, 1], t9, {"J": [J1], "history": ["second-build"],
                                  "delta": [1e-2, 1e-4, 1e-6, 1e-8]}) +
            _section([1], _slot_alphabet(_signed([0.1, 0.5, 2]), [(2, 3)]),
                     {"d0": [0.0, 0.3], "history": ["second-build"],
                      "delta": [1e-2, 1e-4, 1e-6, 1e-8]}))
        sec["many-shifts"] = _many(20, MANY_SHAPES, sorted(MANY_LEVELS), sorted(MANY_SIGNS),
                                   [0.0, J1])
        a2 = _slot_alphabet([(0, 1), (0.5, -1), (1, 1)], [(2, 2), (1, 3), (3, 2)])
        a3 = _slot_alphabet3([(0, 1), (0.5, -1), (1, 1)], [(0, 1), (0.3, 1), (0.8, -1)],
                             [(2, 2, 2), (1, 3, 2), (3, 2, 3)])
        a3s = _slot_alphabet3([(0.5, -1), (1, 1)], [(0.3, 1), (0.8, -1)], [(2, 2, 2), (1, 3, 2)])
        a2s = _slot_alphabet([(0.5, -1), (1, 1)], [(2, 2)])
        a3t = _slot_alphabet3([(0.5, -1), (1, 1)], [(0.3, 1), (0.8, -1)], [(2, 2, 2)])
        sec["three-level"] = (
            _section_lev([1], [3], a2, a3, {"mult": [1, 2], "dip3": DIP3, "d0": [0.0, 0.3]}) +
            _section_lev([2], [3], a2, a3s, {"mult": [2], "dip3": DIP3}) +
            _section_lev([1, 1], [3, 2], a2, a3, {"J": [J1], "mult": [1, 2], "dip3": DIP3}) +
            _section_lev([1, 1], [2, 3], a2, a3, {"J": [J2], "mult": [2], "dip3": DIP3}) +
            _section_lev([1, 1], [3, 3], a2, a3s, {"J": [J1], "mult": [2, 3], "dip3": DIP3}) +
            _section_lev([2, 1], [3, 2], a2s, a3t, {"J": [J1], "mult": [2], "dip3": DIP3}) +
            _section_lev([1, 1, 1], [3, 2, 3], a2s, a3t, {"J": [J1], "mult": [2],
                                                         "dip3": DIP3[:2]}) +
            _section_lev([1, 1, 1], [2, 3, 2], a2s, a3t, {"J": [J1], "mult": [2, 3],
                                                         "dip3": DIP3[:2]}))
        ratios = [1.0, 0.5, 0.8, 1.25, 1.4, 2.0]
        sec["mol-frequency"] = (
            _mol_section(1, _freq_alphabet(_signed([0, 0.1, 0.5, 1, 2]),
                                           _pairs([1, 2, 3, 5]), ratios, WROUTES),
                         {"d0": [0.0, 0.3]}) +
            _mol_section(2, _freq_alphabet([(0, 1), (0.5, -1), (1, 1)], [(2, 2), (1, 3)],
                                           [1.0, 0.8, 1.4], WROUTES), {"wset": ["A", "B"]}) +
            _mol_section(3, _freq_alphabet([(0, 1), (1, 1)], [(2, 2)], [1.0, 0.8, 1.4],
                                           WROUTES), {"wset": ["A"]}))
        sec["post-build"] = (
            [dict(c, after=q) for q in _after_sequences(POSTOPS, 3)
             for c in _section([1, 1], _slot_alphabet([(0.5, -1), (1, 1)], [(2, 2)]),
                               {"J": [J1], "mult": [1, 2]})] +
            [dict(c, after=q) for q in _after_sequences(POSTOPS, 2)
             for c in (_section([1, 1], t4, {"J": [J2], "mult": [1, 2]}) +
                       _section([2, 1], _slot_alphabet([(0.5, -1), (1, 1)], [(2, 2)]),
                                {"J": [J1], "mult": [1, 2]}) +
                       _section([1, 1, 1], _slot_alphabet([(0.5, -1), (1, 1)], [(2, 2)]),
                                {"J": [J1], "mult": [2]}) +
                       _section([1, 1], _slot_alphabet([(0.5, -1), (1, 1)], [(2, 2)]),
                                {"J": [J1], "mult": [2], "fem": [True]}))
             # rebuild() has no fem_full option: not combined with it
             if not ("fem" in c and "rebuild" in q)])
    return sec


def cases(tier):
    out = []
    for name, cs in sections(tier).items():
        out.extend(cs)
    return out


def run(run):
    run.rule = ("complete product: every mode slot of the aggregate independently takes every "
                "(Huang-Rhys factor, sign of shift, levels in g, levels in e) of the section's "
                "alphabet, x coupling x multiplicity x ground-state shift x frequency set; "
                "shift operator: complete product HR x sign x basis size (shift taken from "
                "Mode) and HR x argument class {real +, real -, +-imaginary, 3 general complex "
                "phases} x basis size (direct call); fem-full: slots x multiplicity x build "
                "option fem_full in {False, True}; coupling-call: slots x multiplicity x call "
                "context {no context, energy_units(int | 1/cm | eV | THz | meV)} and inside each "
                "case ALL ordered pairs of vibronic states x full in {default, True} x states "
                "made {outside, inside} the context; history-*: every mode slot takes all "
                "ordered pairs (triples) of settings (route set_HR | set_shift | set_all) x HR "
                "(0 included) x level counts, repetitions included, x stage of the final "
                "setting {fresh molecule, after Molecule.get_Hamiltonian, molecule already in "
                "the Aggregate, after a build with the earlier settings}; near-degenerate: "
                "every slot takes every (Huang-Rhys factor in {0, tiny values, S0, S0(1+e)}, "
                "sign) x ground-state shift, and second-build histories whose earlier "
                "displacements differ by delta; many-shifts: slots 1..N x number of distinct "
                "Huang-Rhys factors 1..slots x shape x level pattern x sign pattern x coupling "
                "{0, J}; post-build: all sequences of 2 (3) later calls on the built "
                "aggregate x slots x multiplicity, observation after every call, both "
                "re-retrieved and held objects; three-level: electronic levels per molecule "
                "pattern x every slot (HR, sign) level 1 x (HR, sign) level 2 x level counts "
                "x dipole pattern x multiplicity; mol-frequency: every slot (HR, sign) x "
                "levels x frequency ratio w_e/w_g x route {set_energy, set_all} x number of "
                "modes x ground-state shift (Molecule.get_Hamiltonian).  non-trivial = at "
                "least one mode with a non-zero displacement between g and e and more than "
                "one level (shiftop: HR > 0)")
    run.assumptions = [
        "reference: closed Laguerre formula mc/refmodels/fc_laguerre.py (no quantarhei, no "
        "diagonalisation); self-check of the reference (unitarity, group law, Poisson, scipy "
        "Laguerre) must be < 1e-12",
        "full vibrational state space only (vibgen_approx=None)",
        "two-level molecules (section three-level: also three-level ones), equal mode "
        "frequency in all electronic states (section mol-frequency: another frequency in the "
        "excited state, Molecule.get_Hamiltonian only), energies in internal units (no unit "
        "conversion involved; C05 owns units)",
        "three-level molecules: electronic signatures = all level tuples with at most mult "
        "excitations (number of excitations = sum of the levels); dipole between signatures "
        "that differ on one molecule going a <-> b (|a-b| = 1 or 2) = the dipole declared for "
        "a <-> b; resonance coupling J_kl only between signatures that differ by a 0-1 hop "
        "on two molecules; for blocks in which a differing molecule is in level 2 the "
        "electronic factor is the package's convention and is fitted (one number per block), "
        "only block = number x product of overlaps is claimed; fem_full, coupling() calls, "
        "histories and later calls are not combined with three-level molecules",
        "mol-frequency: a mode with frequency w(e) in electronic state e contributes "
        "w(e)(a+a - d(e)Q + d(e)^2/2 + 1/2) in the number basis of that state, zero-point "
        "energy w(e)/2 included; the aggregate with such modes is not claimed (its state "
        "energies carry no zero-point terms, and overlaps between oscillators of different "
        "frequency are outside the displaced-oscillator law)",
        "either orientation of the oscillator coordinate is accepted (sigma=+1: overlap = "
        "<n_a|D(d_a-d_b)|n_b> as implemented; sigma=-1: mirrored), but one per aggregate",
        "Molecule.get_Hamiltonian, element-wise for all pairs of quantum-number tuples: equal "
        "to E_e + sum over modes of omega(a+a - dQ + d^2/2 + 1/2) x identity on the other modes "
        "in the number basis of the undisplaced oscillators, up to one common diagonal constant "
        "(zero of energy not claimed) and the orientation of the coordinates",
        "Molecule.get_Hamiltonian, spectrum (basis independent) - equal to that of the "
        "displaced oscillator truncated to the declared number states, exact ladder for zero "
        "shift, above the exact levels and ground level within omega*S*p_{N-1}/(1-t_N) else",
        "more than 20 levels per mode cannot be built (20-level FC table): counted as "
        "unbuildable, not as violation",
        "build(fem_full=True) / coupling(.., full=True): the electronic quantity between two "
        "signatures that differ on exactly two molecules and by two excitations is the "
        "resonance coupling of those two molecules (non-secular terms of the Frenkel "
        "Hamiltonian), zero without the option; vibronic elements = that x product of overlaps",
        "Aggregate.coupling(VibronicState, VibronicState) returns its value in the current "
        "energy units (as its code says: convert_energy_2_current_u on return); reference = "
        "J[internal]/factor(unit) x product of overlaps with factors from the SI definitions; "
        "only the call is made inside the context, the aggregate is set up and built outside; "
        "pairs of purely electronic states are not claimed",
        "histories of settings: Mode.get_HR / get_shift / get_nmax report the value set last "
        "and a build made afterwards corresponds to the last values only (same reference as "
        "for fresh objects); Molecule.get_Hamiltonian() stores its result by design, so "
        "after an earlier retrieval it is requested with recalculate=True; settings are made "
        "outside any units context (frequency passed to set_all in internal units)",
        "post-build: Aggregate.get_Hamiltonian() / get_TransitionDipoleMoment() / FCf looked "
        "at outside any basis or units context are site-basis quantities whenever they are "
        "looked at, also after diagonalize() and other later calls, and objects retrieved "
        "earlier keep their values (only calls that need no system-bath interaction; "
        "'exciton analysis' getters may refuse with 'has to be diagonalized'); rebuild() has "
        "no fem_full option and is not combined with it",
        "many-shifts: electronic energies, dipoles and coupling factors of molecules beyond "
        "the third from fixed formulas (_e_el, _dip, _jfac); mult=1",
    ]
    sc = F.selfcheck()
    if not sc < 1e-12:
        raise isolation.HarnessError("reference model self-check failed: %g" % sc)
    secs = sections(run.tier)
    run.bounds = {"tolerance_R": TOL, "sections": {k: len(v) for k, v in secs.items()},
                  "HR": "0..2 (agg), 0..8 (shiftop)" if run.tier == "thorough" else "0..2",
                  "levels": "1..20" if run.tier == "thorough" else "1..5",
                  "molecules": "1..3 (many-shifts: 1..%d)" % max(len(c["nm"])
                                                                 for c in secs["many-shifts"]),
                  "modes_per_molecule": "0..4" if run.tier == "thorough" else "0..3",
                  "shift_argument_classes": [_phase_class(ph) for ph in PHASES],
                  "mult": [1, 2, 3], "fem_full": FEM,
                  "history": {"length": "2..3 settings per mode", "stages": STAGES,
                              "routes": ["HR", "shift", "all"],
                              "HR": [0, 0.3, 0.5, 0.6] if run.tier == "thorough"
                              else [0, 0.3, 0.6]},
                  "near_degenerate": {"relative_offsets": "1e-8..1e-2" if run.tier == "thorough"
                                      else "1e-7..1e-3",
                                      "tiny_HR": "1e-13..1e-5" if run.tier == "thorough"
                                      else "1e-11, 1e-7",
                                      "second_build_delta": sorted(set(
                                          c["delta"] for c in secs["near-degenerate"]
                                          if "delta" in c))},
                  "many_shifts": {"slots": "1..%d" % max(c["many"]["slots"]
                                                         for c in secs["many-shifts"]),
                                  "distinct_HR": "1..slots", "shapes": MANY_SHAPES,
                                  "levels": sorted(set(c["many"]["levels"]
                                                       for c in secs["many-shifts"])),
                                  "signs": sorted(set(c["many"]["signs"]
                                                      for c in secs["many-shifts"]))},
                  "three_level": {"levels_per_molecule": sorted(set(
                      tuple(c["lev"]) for c in secs["three-level"])), "dipole_patterns": DIP3,
                                  "mult": sorted(set(c["mult"] for c in secs["three-level"]))},
                  "mol_frequency": {"ratios": sorted(set(sl["wr"] for c in secs["mol-frequency"]
                                                         for sl in c["slots"])),
                                    "routes": WROUTES, "modes": "1..3" if run.tier == "thorough"
                                    else "1..2"},
                  "post_build": {"calls": POSTOPS,
                                 "sequence_length": sorted(set(len(c["after"]) for c in
                                                               secs["post-build"])),
                                 "observed": ["H", "dipole", "FCf"],
                                 "how": ["retrieved-after", "held-from-before"]},
                  "coupling_call_contexts": sorted(set(c["ctx"] for c in secs["coupling-call"])),
                  "coupling_call_inner": {"full": ["default", True], "states_made": MADE,
                                          "pairs": "all ordered pairs of vibronic states"}}
    worst, unbuildable, mirrored, calls = {}, [], 0, 0
    for name, cs in secs.items():
        infos = run_grid(run, cs, eval_case, section=name)
        for inf in infos:
            if inf.get("sigma") == -1:
                mirrored += 1
            calls += int(inf.get("coupling_calls") or 0)
            for k, v in (inf.get("dev") or {}).items():
                if v is not None and numpy.isfinite(v):
                    worst[k] = max(worst.get(k, 0.0), float(v))
            if inf.get("unbuildable"):
                unbuildable.append(inf["unbuildable"])
    run.note(worst_deviation={k: float("%.3g" % v) for k, v in sorted(worst.items())},
             unbuildable=len(unbuildable), unbuildable_what=sorted(set(unbuildable))[:4],
             refmodel_selfcheck=float("%.3g" % sc),
             cases_matching_only_mirrored_orientation=mirrored,
             direct_coupling_calls_compared=calls)
