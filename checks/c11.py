"""C11 Linear spectra match the Fourier integral and symmetry relations.

E-grid: ten complete products (molecule; aggregate; aggregate + static secular Redfield tensor;
aggregate + time-dependent tensor; from_dynamics route; aggregate with a user-supplied
CorrelationFunctionMatrix carrying site-off-diagonal (cross-correlation) entries; aggregate whose
Hamiltonian carries a split-off remainder coupling; histories of the aggregate object; systems
whose dipoles all carry a common factor s; histories of one calculator object) over (size,
site-energy set, coupling pattern, dipole geometry, bath pattern, time-axis length and step
[, correlation-matrix pattern][, cut-off mode x value][, operation sequence x calculator
creation time][, common dipole factor][, calculator operation sequence]).
Inside EVERY grid point (the two history sections excepted) the whole inner alphabets
are applied (never sampled): all rotations of the tier's rotation set, all relabellings of the
molecules, all dipole scale factors, the uncoupled partner system (integral clause) and an
exception injected at every call position of `one_transition_spectrum` (purity under failure).

Clauses and oracles
  fourier   returned raw spectrum == direct half-sided Fourier sum of
            a(t) = sum_a |d_a|^2 exp(-g_a(t) - i w_a t [+ R_aaaa t]) evaluated AT THE RETURNED AXIS
            (mc/refmodels/absorption_ref.py, no FFT, no index arithmetic)
                                             tol Q 1e-8*peak + 2|a(t_last)|dt (end-point rule)
            A failure is classified: key `fourier/axis-shift=+2/hfft-length` ONLY if the returned
            axis is the central cut of the 2Nt-point axis AND the returned data equal (class R,
            1e-10*peak) the reference evaluated on the grid really sampled by hfft's default
            output length 2(Nt-1), displaced by exactly two points; anything else is
            `fourier/mismatch/<kind>`.
  scaling   S[k d] == k^2 S[d]                                                       tol R 1e-10
  rotation  S[R d, R r] == S[d, r]                                                   tol R 1e-10
  relabel   S[permuted molecules] == S                                              tol R 1e-10
  integral  sum_w S_raw dw / sum_k |d_k|^2 is the same with and without coupling     tol Q 5e-3
            (and, at run level, the same for all systems on the same time axis)
  purity    Hamiltonian / dipole operator / tensor arrays identical before and after calculate
            (raw and non-raw), second calculate returns the same spectrum; also after calculate
            raised (injected at every call of one_transition_spectrum; aggregate without
            environment, where calculate raises by itself)                          tol R 1e-10
            [the after-raise part is disabled, see VERIF_C11_AFTER_RAISE below]
            A Hamiltonian's remainder coupling JR and its flag belong to the Hamiltonian.

Added dimensions
  cf-matrix  the bath is a user-built CorrelationFunctionMatrix (set_egcf_mapping on the molecules,
             set_egcf_matrix on the aggregate); patterns: explicit diagonal, one bath for all sites,
             every pair of sites sharing a bath, weak cross-correlation of all pairs / of one pair.
             Reference: C_alpha = sum_{k,l} c_k^2 c_l^2 C_kl over the FULL square, from the samples
             of the functions handed in.
  cutoff     modes remove / subtract (Hamiltonian.remove_cutoff_coupling / subtract_cutoff_coupling
             on the system Hamiltonian) and effective-RF (tensor + effective Hamiltonian of
             get_RelaxationTensor("combined_RedfieldFoerster", coupling_cutoff=c)); values below,
             between and above the couplings.  The reference takes the one-exciton block of the
             Hamiltonian the calculator is given (before the call).
  history    ALL sequences up to the tier's depth over the operations D (Aggregate.diagonalize),
             M (MockAbsSpectrumCalculator bootstrap+calculate), A (another AbsSpectrumCalculator
             run), R (tensor + run with tensor) [, F (propagator + from_dynamics run)] applied to
             the SAME aggregate object, calculator created before / after the history.  Checked:
             purity of every spectrum-calculating step (snapshot just before its calculator is
             made), then purity + Fourier clause of the final spectrum and its identity (class R)
             with the spectrum of an identical, never touched aggregate.  (Mock line SHAPES have no
             dipole correlation function and are not compared with anything.)
  dipole-scale  grid dimension s in {1, 1e-2, 1e-4, 1e3}: ALL dipoles of the system are s times
             the geometry's vectors (dipole-dipole couplings kept fixed through eps_r -> s^2 eps_r).
             At every s the whole of eval_case runs (Fourier clause with the reference built from
             the scaled dipoles, inner scale factors, rotations, relabellings, integral with and
             without coupling, purity), plus S[s d] == s^2 S[d] against the unit-scale system
             (class R; molecule 5e-6 because of its radiative width, s = 1e3 not in the molecule's
             product for the same reason).  The run-level integral clause compares the integrals per
             unit sum|d_k|^2 ACROSS the scales.  Energy set "equal" (identical molecules) with
             parallel equal dipoles and non-zero coupling gives exactly dark exciton states.
  calculator-history  ALL sequences up to the tier's depth, ending with a calculate operation,
             over the operations of ONE AbsSpectrumCalculator object: b bootstrap(), p / q
             bootstrap(rwa=r1 / r2), w molecule.set_electronic_rwa (the class docstring's
             sequence), P bootstrap(prop=propagator), c calculate(raw=True), f
             calculate(raw=True, from_dynamics=True) [only while the last bootstrap gave a
             propagator].  After EVERY calculate operation: purity, the Fourier clause evaluated
             at the axis returned with THAT spectrum (same classification as everywhere: the known
             two-point displacement is recognised only on the central cut of the 2Nt axis around
             the calculator's current carrier), identity (class R) with earlier spectra of the same
             history calculated by the same route at the same carrier frequency.  The documented
             refusals (calculate before any successful bootstrap; bootstrap without any RWA
             frequency) are steps of the histories; they must leave the system unchanged.
"""
import itertools

import numpy

from mc import isolation, systems
from mc.explore import run_grid, approx, product
from mc.refmodels import absorption_ref as AR

LEVEL = "model_checking"

TOL_R = 1e-10        # rounding class
# Fourier clause, relative to the peak of the reference.  Both sides use the same samples of
# C(t) and the same (cubic-spline) double integration, only the transform differs: worst seen
# on the repaired tree over the thorough grid 6.3e-11; smallest mutant effect 6e-4.
TOL_F = 1e-8
# monomer: the radiative rate ~ |d|^2 enters the line; worst physical deviation from the k^2
# law seen 2.9e-7 (thorough); mutants O(1)
TOL_MONO_SCALE = 5e-6
# integral clause (wings outside the retained half window): worst seen 5.5e-4 inside a case,
# 9.2e-4 across systems (thorough); mutant effects >= 0.16
TOL_I = 5e-3

VEC = [[1.0, 0.0, 0.0], [0.3, 0.9, 0.1], [-0.4, 0.2, 0.8], [0.5, -0.7, 0.4]]
POS = [[0.0, 0.0, 0.0], [7.0, 1.0, 0.0], [1.5, 8.0, 2.0]]          # Angstrom
ESETS = {"wide": [12000.0, 12200.0, 12350.0], "narrow": [12100.0, 12040.0, 12160.0],
         # identical molecules: with equal (parallel) dipoles the coupled aggregate has EXACTLY dark
         # exciton states (used only with non-zero coupling, which resolves the levels)
         "equal": [12100.0, 12100.0, 12100.0]}
BATHS = {
    "same": [dict(ftype="OverdampedBrownian", reorg=30.0, cortime=100.0, T=300.0)] * 3,
    "sitewise": [dict(ftype="OverdampedBrownian", reorg=30.0, cortime=100.0, T=300.0),
                 dict(ftype="OverdampedBrownian", reorg=15.0, cortime=60.0, T=300.0),
                 dict(ftype="OverdampedBrownian", reorg=45.0, cortime=80.0, T=300.0)],
    "cold": [dict(ftype="OverdampedBrownian", reorg=20.0, cortime=60.0, T=100.0,
                  matsubara=20)] * 3,
}
# user-supplied CorrelationFunctionMatrix: alphabet of bath functions and of assignment patterns
# [bath index, [(k, l), ...]]; every pattern is symmetric and fills the whole diagonal
CFM_BATHS = [dict(ftype="OverdampedBrownian", reorg=30.0, cortime=100.0, T=300.0),
             dict(ftype="OverdampedBrownian", reorg=15.0, cortime=60.0, T=300.0),
             dict(ftype="OverdampedBrownian", reorg=45.0, cortime=80.0, T=300.0),
             dict(ftype="OverdampedBrownian", reorg=10.0, cortime=100.0, T=300.0)]


def cfm_pattern(n, name):
    """assignment list of the named pattern for n sites."""
    sq = lambda idx: [[i, j] for i in idx for j in idx]
    if name == "diag":              # explicit matrix, independent site baths (no cross terms)
        return [[k, [[k, k]]] for k in range(n)]
    if name == "all":               # one bath felt by all sites (fully correlated)
        return [[0, sq(range(n))]]
    if name.startswith("pair"):     # two sites share bath 0 (fully correlated), the rest own baths
        i, j = int(name[4]), int(name[5])
        rest = [k for k in range(n) if k not in (i, j)]
        return [[0, sq([i, j])]] + [[1 + m, [[k, k]]] for m, k in enumerate(rest)]
    if name == "partial":           # own bath per site, every pair weakly correlated by bath 3
        return [[k, [[k, k]]] for k in range(n)] + \
               [[3, [[i, j] for i in range(n) for j in range(n) if i != j]]]
    if name == "partial01":         # own baths, only sites 0 and 1 weakly correlated
        return [[k, [[k, k]]] for k in range(n)] + [[3, [[0, 1], [1, 0]]]]
    raise ValueError(name)


DD_DIPOLE_FACTOR = 4.0    # dipole-dipole mode: dipoles of ~4 D at ~7 A give |J| ~ 20-100 1/cm
SCALES = [0.5, 2.0]
# dipole-scale DIMENSION of the grid (section "dipole-scale"): every clause is evaluated on the
# system whose dipoles all carry the factor s, and S[s d] is compared with s^2 S[d]
DSCALES = [1.0, 1.0e-2, 1.0e-4, 1.0e3]


class Injected(Exception):
    pass


# ------------------------------------------------------------------------------------------
# inner alphabets
# ------------------------------------------------------------------------------------------
def rotations(tier):
    cube = AR.cube_rotations()[1:]                       # 23 non-identity cube rotations
    gen = [AR.rotation([1.0, 2.0, 3.0], 0.7), AR.rotation([-2.0, 0.5, 1.0], 2.1)]
    if tier == "quick":
        # generators of the cube group (two 90-degree turns, one 3-fold) + one generic
        sel = [m for m in cube if _is(m, [[1, 0, 0], [0, 0, -1], [0, 1, 0]])
               or _is(m, [[0, -1, 0], [1, 0, 0], [0, 0, 1]])
               or _is(m, [[0, 0, 1], [1, 0, 0], [0, 1, 0]])]
        return sel + gen[:1]
    return cube + gen


def _is(m, ref):
    return numpy.array_equal(numpy.asarray(m), numpy.asarray(ref, dtype=float))


def coupling_matrix(n, pattern):
    J = [[0.0] * n for _ in range(n)]
    if pattern in ("none", "dd"):
        return J
    if pattern.startswith("chain"):
        j = float(pattern[5:])
        for i in range(n - 1):
            J[i][i + 1] = J[i + 1][i] = j
        return J
    if pattern == "full":
        vals = {(0, 1): 60.0, (0, 2): -120.0, (1, 2): 35.0}
        for (i, j), v in vals.items():
            if j < n:
                J[i][j] = J[j][i] = v
        return J
    raise ValueError(pattern)


def spec_of(case):
    n = case["N"]
    dd = case["coupling"] == "dd"
    f = DD_DIPOLE_FACTOR if dd else 1.0
    # dipole-scale dimension: ALL dipoles of the system carry the common factor s (dipoles given
    # in other units, very weak / very strong transitions); dipole-dipole couplings are kept
    # fixed through eps_r -> s^2 eps_r
    s = float(case.get("dscale", 1.0))
    return {"kind": case["kind"], "n": n,
            "E": list(ESETS[case["eset"]][:n]),
            "dip": [[s * (f * x) for x in VEC[int(ch)]] for ch in case["geom"]],
            "pos": [list(p) for p in POS[:n]],
            "J": coupling_matrix(n, case["coupling"]), "dd": dd, "epsr": 1.0 * s * s,
            "dscale": s,
            "bath": [dict(b) for b in BATHS[case["bath"]][:n]],
            "shared_cf": case["bath"] in ("same", "cold"),
            "tensor": case["tensor"] if case["tensor"] == "td" else bool(case["tensor"]),
            "rwa": case.get("rwa", "system"),
            # common ground-state energy of all molecules (1/cm): transition energies, and with them
            # every line position, do not depend on it
            "e0": float(case.get("e0", 0.0)),
            # user-supplied CorrelationFunctionMatrix (assignment list) instead of per-molecule
            # transition environments; None = the molecules carry their own functions
            "cfm": cfm_pattern(n, case["cfm"]) if case.get("cfm") else None,
            # couplings below/at a cut-off split off into a remainder: [mode, value in 1/cm]
            "cutoff": list(case["cutoff"]) if case.get("cutoff") else None,
            "Nt": case["Nt"], "dt": case["dt"]}


def variant(spec, scale=None, rot=None, perm=None, zero_coupling=False, no_bath=False):
    s = {k: (list(v) if isinstance(v, list) else v) for k, v in spec.items()}
    s["dip"] = [list(d) for d in spec["dip"]]
    s["pos"] = [list(p) for p in spec["pos"]]
    s["J"] = [list(r) for r in spec["J"]]
    if scale is not None:
        s["dip"] = [[scale * x for x in d] for d in s["dip"]]
        # dipole-dipole couplings are kept fixed: eps_r scaled by k^2 (exact for k = 2^m)
        s["epsr"] = spec["epsr"] * scale * scale
    if rot is not None:
        r = numpy.asarray(rot)
        s["dip"] = [r.dot(numpy.asarray(d)).tolist() for d in s["dip"]]
        s["pos"] = [r.dot(numpy.asarray(p)).tolist() for p in s["pos"]]
    if perm is not None:
        p = list(perm)
        for key in ("E", "dip", "pos", "bath"):
            s[key] = [s[key][i] for i in p]
        s["J"] = [[s["J"][i][j] for j in p] for i in p]
        if s.get("cfm"):
            # new site a is old site p[a]: old index i sits at position p.index(i)
            s["cfm"] = [[ib, [[p.index(i), p.index(j)] for i, j in where]]
                        for ib, where in s["cfm"]]
    if zero_coupling:
        n = s["n"]
        s["J"] = [[0.0] * n for _ in range(n)]
        s["dd"] = False
        s["tensor"] = False
        if s.get("cutoff") and s["cutoff"][0] == "effective-RF":
            s["cutoff"] = None       # the mode IS a supplied tensor + effective Hamiltonian
    if no_bath:
        s["bath"] = None
        s["tensor"] = False
        s["cfm"] = None
    return s


# ------------------------------------------------------------------------------------------
# building real objects
# ------------------------------------------------------------------------------------------
class Built:
    pass


def build(spec, ta=None):
    qr = isolation.qr()
    b = Built()
    b.spec = spec
    b.ta = ta if ta is not None else qr.TimeAxis(0.0, int(spec["Nt"]), float(spec["dt"]))
    n = spec["n"]
    cfs = []
    cfm = spec.get("cfm") if spec["bath"] is not None else None
    cmat = None
    b.cfmat = None
    if cfm:
        # user-supplied matrix of (cross-)correlation functions; the reference gets the samples
        # of the functions handed in, not what the library stores
        from quantarhei.qm.corfunctions import CorrelationFunctionMatrix
        cmat = CorrelationFunctionMatrix(b.ta, n)
        fobj = {}
        b.cfmat = [[numpy.zeros(b.ta.length, dtype=complex) for _ in range(n)]
                   for _ in range(n)]
        for ib, where in cfm:
            if ib not in fobj:
                fobj[ib] = systems.corfce(b.ta, CFM_BATHS[ib])
            cmat.set_correlation_function(fobj[ib], [tuple(w) for w in where])
            for i, j in where:
                b.cfmat[i][j] = numpy.array(fobj[ib].data, dtype=complex)
    elif spec["bath"] is not None:
        shared = None
        for k in range(n):
            if spec["shared_cf"]:
                if shared is None:
                    shared = systems.corfce(b.ta, spec["bath"][k])
                cfs.append(shared)
            else:
                cfs.append(systems.corfce(b.ta, spec["bath"][k]))
    mols = []
    with qr.energy_units("1/cm"):
        for k in range(n):
            e0 = float(spec.get("e0", 0.0))
            m = qr.Molecule(elenergies=[e0, e0 + float(spec["E"][k])])
            m.set_dipole(0, 1, list(spec["dip"][k]))
            mols.append(m)
    for k in range(n):
        mols[k].position = numpy.array(spec["pos"][k], dtype=float)
        if cfs:
            mols[k].set_transition_environment((0, 1), cfs[k])
        elif cmat is not None:
            mols[k].set_egcf_mapping((0, 1), cmat, k)
    b.cfs = [numpy.array(c.data, dtype=complex) for c in cfs] if cfs else None
    b.tensor = None
    b.ham = None
    b.extra_rates = None
    if spec["kind"] == "molecule":
        b.system = mols[0]
        # radiative rate of the isolated molecule (a parameter of the system, like a tensor)
        b.extra_rates = [1.0 / float(mols[0].get_electronic_natural_lifetime(1))]
        if spec["rwa"] == "system":
            b.system.set_electronic_rwa([0, 1])
        b.calc = qr.AbsSpectrumCalculator(b.ta, system=b.system)
        if spec["rwa"] == "system":
            b.calc.bootstrap()
        else:
            with qr.energy_units("1/cm"):
                b.calc.bootstrap(rwa=float(spec["E"][0]) - 40.0)
        isolation.reset_units()
        return b
    agg = qr.Aggregate(molecules=mols)
    if cmat is not None:
        agg.set_egcf_matrix(cmat)
    if spec["dd"]:
        agg.set_coupling_by_dipole_dipole(epsr=float(spec["epsr"]))
    else:
        with qr.energy_units("1/cm"):
            for i in range(n):
                for j in range(i + 1, n):
                    if spec["J"][i][j] != 0.0:
                        agg.set_resonance_coupling(i, j, float(spec["J"][i][j]))
    agg.build()
    isolation.reset_units()          # Aggregate.build may leave units switched (C05 owns that)
    b.system = agg
    cut = spec.get("cutoff")
    if cut and cut[0] in ("remove", "subtract"):
        # the user splits the weak couplings off the SYSTEM Hamiltonian (remainder coupling JR)
        with qr.energy_units("1/cm"):
            if cut[0] == "remove":
                agg.get_Hamiltonian().remove_cutoff_coupling(float(cut[1]))
            else:
                agg.get_Hamiltonian().subtract_cutoff_coupling(float(cut[1]))
        isolation.reset_units()
    if cut and cut[0] == "effective-RF":
        # tensor + effective Hamiltonian (carrying a remainder coupling) of the combined theory
        with qr.energy_units("1/cm"):
            rr, ham = agg.get_RelaxationTensor(b.ta,
                                               relaxation_theory="combined_RedfieldFoerster",
                                               coupling_cutoff=float(cut[1]),
                                               secular_relaxation=True,
                                               time_dependent=(spec["tensor"] == "td"))
        isolation.reset_units()
        b.tensor, b.ham = rr, ham
        b.calc = qr.AbsSpectrumCalculator(b.ta, system=agg, relaxation_tensor=rr,
                                          effective_hamiltonian=ham)
    elif spec["tensor"]:
        rr, ham = agg.get_RelaxationTensor(b.ta, relaxation_theory="standard_Redfield",
                                           secular_relaxation=True,
                                           time_dependent=(spec["tensor"] == "td"))
        isolation.reset_units()
        b.tensor, b.ham = rr, ham
        b.calc = qr.AbsSpectrumCalculator(b.ta, system=agg, relaxation_tensor=rr,
                                          effective_hamiltonian=ham)
    else:
        b.calc = qr.AbsSpectrumCalculator(b.ta, system=agg)
    b.calc.bootstrap()
    isolation.reset_units()
    return b


def observed_objects(b):
    """The long-lived objects the property speaks about (fetched BEFORE the call)."""
    if b.spec["kind"] == "molecule":
        return {"hamiltonian": b.system.elenergies, "dipole": b.system.dmoments}
    o = {"hamiltonian": b.system.get_Hamiltonian(),
         "dipole": b.system.get_TransitionDipoleMoment()}
    if b.tensor is not None:
        o["tensor"] = b.tensor
        if b.ham is not o["hamiltonian"]:
            o["effective-hamiltonian"] = b.ham
    # state a Hamiltonian carries besides its matrix: the split-off (remainder) coupling
    for name in ("hamiltonian", "effective-hamiltonian"):
        h = o.get(name)
        if h is not None and getattr(h, "_has_remainder_coupling", False):
            o[name + "-remainder-coupling"] = _Attr(h, "JR")
            o[name + "-remainder-flag"] = _Attr(h, "_has_remainder_coupling")
    return o


class _Attr:
    """An attribute of an object that the library may REBIND (looked up at comparison time)."""

    def __init__(self, obj, name):
        self.obj, self.name = obj, name

    @property
    def data(self):
        return numpy.atleast_1d(numpy.array(getattr(self.obj, self.name), dtype=float))


def _arr(x):
    return numpy.array(x.data if hasattr(x, "data") and not isinstance(x, numpy.ndarray) else x)


def snapshot(objs):
    return {k: _arr(v).copy() for k, v in objs.items()}


def changed(objs, snap):
    """names of objects whose arrays differ from the snapshot (class R), and worst deviation."""
    bad, worst = [], 0.0
    for k, v in objs.items():
        now = _arr(v)
        scale = max(float(numpy.max(numpy.abs(snap[k]))), 1e-300)
        ok, err = approx(now, snap[k], TOL_R, scale=scale)
        worst = max(worst, (err / scale) if numpy.isfinite(err) else 1e300)
        if not ok:
            bad.append(k)
    return bad, worst


def spectrum(b, raw=True):
    s = b.calc.calculate(raw=raw)
    isolation.reset_units()
    return numpy.array(s.axis.data, dtype=float), numpy.array(s.data, dtype=float)


def same_spectrum(ref, other, tol, factor=1.0):
    """(ok, relative deviation) of other vs factor*ref, axes must agree too."""
    (x0, y0), (x1, y1) = ref, other
    if x0.shape != x1.shape or y0.shape != y1.shape:
        return False, float("inf")
    sc = max(float(numpy.max(numpy.abs(y0))) * factor, 1e-300)
    ok, err = approx(y1, factor * y0, tol, scale=sc)
    okx, errx = approx(x1, x0, TOL_R, scale=max(float(numpy.max(numpy.abs(x0))), 1e-300))
    rel = err / sc if numpy.isfinite(err) else float("inf")
    return bool(ok and okx), rel


# ------------------------------------------------------------------------------------------
# reference
# ------------------------------------------------------------------------------------------
def _one_exciton_block(hfull):
    """One-exciton block of a full Hamiltonian matrix as TRANSITION energies: the energy of the
    (decoupled) ground state hfull[0, 0] - the sum of the molecular ground-state energies - is
    taken off the diagonal."""
    h1 = numpy.array(hfull[1:, 1:], dtype=float)
    return h1 - float(hfull[0, 0]) * numpy.eye(h1.shape[0])


def reference_signal(b, hlib_before, rsite_before):
    """a(t) (rotating at wref) of the system described by the case, from the spec.

    hlib_before: data of the Hamiltonian the calculator works with (the system's, or the supplied
    effective one), taken before the call."""
    qr = isolation.qr()
    spec = b.spec
    cm2int = float(qr.convert(1.0, "1/cm", "int"))
    n = spec["n"]
    if spec.get("cutoff"):
        # the Hamiltonian without the split-off couplings is what the user hands over (which
        # couplings Hamiltonian.remove/subtract_cutoff_coupling splits off is not C11's matter)
        h1 = _one_exciton_block(hlib_before)
    elif spec["kind"] == "molecule" or not spec["dd"]:
        h1 = numpy.zeros((n, n))
        for i in range(n):
            h1[i, i] = spec["E"][i] * cm2int
            for j in range(n):
                if i != j:
                    h1[i, j] = spec["J"][i][j] * cm2int
    else:
        # dipole-dipole couplings are computed by the library from positions and dipoles (C03's
        # matter); the reference takes the one-exciton block of the Hamiltonian as built
        h1 = _one_exciton_block(hlib_before)
    wref = float(numpy.mean(numpy.diag(h1)))
    a, info = AR.dipole_correlation(b.ta.data, h1, spec["dip"], b.cfs, rsite=rsite_before,
                                    wref=wref, extra_rates=b.extra_rates,
                                    site_cf_matrix=b.cfmat)
    info["wref"] = wref
    info["h1"] = h1
    return a, info


def fourier_clause(b, base, hlib, rsite, kindtag, add, worst):
    """Fourier clause for the spectrum `base` = (axis, data) of the built system b.

    Returns None when the axis is unusable, else dict(fourier=classification, info=..., lines=...,
    resolved=..., peak=...)."""
    spec = b.spec
    nt, dt = spec["Nt"], spec["dt"]
    x, y = base
    # axis sanity (nothing about the grid itself is demanded)
    a_t, info = reference_signal(b, hlib, rsite)
    lines = info["w"]
    if len(x) != len(y) or len(x) < 2 or not numpy.all(numpy.diff(x) > 0):
        add("axis/not-increasing-or-length", "returned axis is not a strictly increasing axis "
            "of the length of the data", None)
        return None
    else:
        steps = numpy.diff(x)
        if float(numpy.max(numpy.abs(steps - steps[0]))) > 1e-9 * abs(steps[0]):
            add("axis/non-uniform", "returned axis is not uniform", None)
        if lines.min() < x[0] or lines.max() > x[-1]:
            add("axis/lines-outside-window", "transition frequencies %s outside the returned "
                "axis [%g, %g]" % (lines.tolist(), x[0], x[-1]), None)
    resolved = bool(info["gap"] > 1e-6)           # non-degenerate exciton levels
    ref = AR.half_sided_sum(b.ta.data, a_t, x - info["wref"], dt)
    peak = float(numpy.max(numpy.abs(ref)))
    # the end-point rule of the quadrature is not prescribed by the property: a last sample
    # counted once instead of twice changes the sum by at most |a(t_last)| dt
    endpoint = 2.0 * float(numpy.abs(a_t[-1])) * dt
    okf, errf = approx(y, ref, TOL_F + endpoint / max(peak, 1e-300), scale=peak)
    fourier = "ok"
    if resolved and not okf:
        # classification of the failure
        carrier = float(b.calc.rwa)
        exp_axis = carrier + AR.expected_axis_offsets(nt, dt)
        axis_is_2nt_cut = (len(x) == nt and
                           approx(x, exp_axis, TOL_R, scale=max(abs(carrier), 1.0))[0])
        a_c = a_t * numpy.exp(1j * (carrier - info["wref"]) * b.ta.data)   # rotating at rwa
        sig = AR.hermitian_sum_nyquist(b.ta.data, a_c, AR.hfft_default_grid(nt, dt, 2),
                                       dt) if len(y) == nt else None
        oks, errs = (approx(y, sig, TOL_R, scale=peak) if sig is not None
                     else (False, float("inf")))
        if axis_is_2nt_cut and oks:
            fourier = "shift+2"
            worst("fourier-vs-displaced-hfft-grid", errs / peak)
            add("fourier/axis-shift=+2/hfft-length",
                "spectrum is displaced by exactly two points on its axis: data[m] is the Fourier "
                "sum at rwa+(m+Nt//2-Nt+2)*pi/((Nt-1)dt) (hfft default length 2(Nt-1)) while "
                "axis[m]=rwa+(m+Nt//2-Nt)*pi/(Nt dt); on-axis error %.3g of peak %.3g, error "
                "on the displaced grid %.2g" % (errf, peak, errs),
                {"on_axis_error": errf, "peak": peak, "displaced_grid_error": errs})
        else:
            fourier = "mismatch"
            # diagnostics only: best integer displacement on the returned grid
            best = None
            if len(x) > 2:
                dw = x[1] - x[0]
                for sh in range(-4, 5):
                    r2 = AR.half_sided_sum(b.ta.data, a_t, x + sh * dw - info["wref"], dt)
                    e2 = float(numpy.max(numpy.abs(y - r2))) if len(y) == len(r2) else 1e300
                    if best is None or e2 < best[1]:
                        best = (sh, e2)
            add("fourier/mismatch/" + kindtag,
                "spectrum differs from the direct Fourier sum at the returned axis points by "
                "%.3g (peak %.3g); not the known two-point displacement (displaced-grid error "
                "%.3g, axis-is-2Nt-cut=%s); best integer shift %s"
                % (errf, peak, errs, axis_is_2nt_cut, best),
                {"on_axis_error": errf, "peak": peak, "best_shift": best})
    elif resolved:
        worst("fourier", errf / peak)

    return {"fourier": fourier, "info": info, "lines": lines, "resolved": resolved, "peak": peak}


# ------------------------------------------------------------------------------------------
# the case
# ------------------------------------------------------------------------------------------
def eval_case(case, tier=None):
    tier = tier or case.get("_tier", "quick")
    if case.get("route") == "dynamics":
        return eval_dynamics(case, tier)
    if case.get("route") == "history":
        return eval_history(case, tier)
    if case.get("route") == "calc-history":
        return eval_calc_history(case, tier)
    if case.get("route") == "recouple":
        return eval_recouple(case, tier)
    if case.get("route") == "pair-aligned":
        return eval_pair_aligned(case, tier)
    spec = spec_of(case)
    viol = {}
    dev = {}
    ncalc = 0

    def add(key, what, det=None):
        if key not in viol:
            viol[key] = (key, what, det)

    def worst(name, x):
        dev[name] = max(dev.get(name, 0.0), float(x))

    kind = spec["kind"]
    n = spec["n"]
    kindtag = kind + ("+td-tensor" if spec["tensor"] == "td" else
                      "+tensor" if spec["tensor"] else "")
    if spec.get("cfm"):
        kindtag += "+cf-matrix"
    if spec.get("cutoff"):
        kindtag += "+cutoff-" + spec["cutoff"][0]
    if spec["dscale"] != 1.0:
        kindtag += "+scaled-dipoles"
    nt, dt = spec["Nt"], spec["dt"]

    # ---------------- base system: purity + Fourier -----------------------------------
    b = build(spec)
    objs = observed_objects(b)
    snap = snapshot(objs)
    hlib = None if kind == "molecule" else snap["hamiltonian"].copy()
    if spec.get("cutoff") and "effective-hamiltonian" in snap:
        hlib = snap["effective-hamiltonian"].copy()     # the one the calculator is given
    rsite = snap.get("tensor")
    base = spectrum(b, raw=True)
    ncalc += 1
    bad, w = changed(objs, snap)
    worst("purity", w)
    if bad:
        add("purity/after-calculate/" + "+".join(sorted(bad)),
            "calculate(raw=True) changed %s of the system (max rel. change %.3g)" % (bad, w),
            {"changed": bad})
    nonraw = spectrum(b, raw=False)
    ncalc += 1
    bad, w = changed(objs, snap)
    worst("purity", w)
    if bad:
        add("purity/after-calculate/" + "+".join(sorted(bad)),
            "calculate(raw=False) changed %s of the system (max rel. change %.3g)" % (bad, w),
            {"changed": bad})
    if kind == "aggregate":
        # objects handed out after the call are still the ones observed
        if b.system.get_Hamiltonian() is not objs["hamiltonian"] or \
                b.system.get_TransitionDipoleMoment() is not objs["dipole"]:
            o2 = {"hamiltonian": b.system.get_Hamiltonian(),
                  "dipole": b.system.get_TransitionDipoleMoment()}
            bad2, w2 = changed(o2, snap)
            if bad2:
                add("purity/after-calculate/replaced-" + "+".join(sorted(bad2)),
                    "system hands out different %s after calculate" % bad2, None)
    again = spectrum(b, raw=True)
    ncalc += 1
    ok, rel = same_spectrum(base, again, TOL_R)
    worst("purity-second-call", rel)
    if not ok:
        add("purity/second-call-differs",
            "a second calculate() on the same objects returns a different spectrum "
            "(rel. dev %.3g)" % rel, None)

    fc = fourier_clause(b, base, hlib, rsite, kindtag, add, worst)
    if fc is None:
        return {"nontrivial": False, "outcome": "bad-axis", "violations": list(viol.values()),
                "n": ncalc - 1}
    x, y = base
    fourier, info, lines, resolved = fc["fourier"], fc["info"], fc["lines"], fc["resolved"]

    # ---------------- dipole scaling ------------------------------------------------------
    for k in SCALES:
        v = build(variant(spec, scale=k), ta=None)
        sv = spectrum(v, raw=True)
        ncalc += 1
        tol = TOL_MONO_SCALE if kind == "molecule" else TOL_R
        ok, rel = same_spectrum(base, sv, tol, factor=k * k)
        worst("scaling-" + kind, rel)
        if not ok:
            add("scaling/k^2/" + kindtag,
                "S[%g d] differs from %g S[d] by %.3g (relative)" % (k, k * k, rel),
                {"k": k})

    # ---------------- dipole-scale dimension: S[s d] == s^2 S[d] ---------------------------
    if spec["dscale"] != 1.0:
        ds = spec["dscale"]
        unit = dict(case)
        unit["dscale"] = 1.0
        v = build(spec_of(unit))
        sv = spectrum(v, raw=True)
        ncalc += 1
        tol = TOL_MONO_SCALE if kind == "molecule" else TOL_R
        ok, rel = same_spectrum(sv, base, tol, factor=ds * ds)
        worst("dipole-scale-" + kind, rel)
        if not ok:
            add("scaling/dipole-scale-dimension/" + kindtag,
                "S[s d] differs from s^2 S[d] by %.3g (relative to the peak of s^2 S[d]) for "
                "the common dipole factor s = %g" % (rel, ds), {"s": ds})

    # ---------------- rotations ------------------------------------------------------------
    for ir, rot in enumerate(rotations(tier)):
        v = build(variant(spec, rot=rot))
        sv = spectrum(v, raw=True)
        ncalc += 1
        ok, rel = same_spectrum(base, sv, TOL_R)
        worst("rotation", rel)
        if not ok:
            add("rotation/" + kindtag + ("/dd" if spec["dd"] else ""),
                "spectrum changes by %.3g (relative) under the common rotation #%d of dipoles "
                "and positions" % (rel, ir), {"rotation": numpy.asarray(rot).tolist()})

    # ---------------- relabelling ----------------------------------------------------------
    if kind == "aggregate" and n > 1:
        for perm in list(itertools.permutations(range(n)))[1:]:
            v = build(variant(spec, perm=perm))
            sv = spectrum(v, raw=True)
            ncalc += 1
            ok, rel = same_spectrum(base, sv, TOL_R)
            worst("relabel", rel)
            if not ok:
                add("relabel/" + kindtag,
                    "spectrum changes by %.3g (relative) when molecules are relabelled %s"
                    % (rel, list(perm)), {"perm": list(perm)})

    # ---------------- integral -------------------------------------------------------------
    d2sum = float(sum(numpy.dot(d, d) for d in spec["dip"]))
    cint = float(numpy.sum(y) * (x[1] - x[0]) / d2sum)
    coupled = kind == "aggregate" and (spec["dd"] or any(v != 0.0 for r in spec["J"] for v in r))
    if coupled:
        v = build(variant(spec, zero_coupling=True))
        x0, y0 = spectrum(v, raw=True)
        ncalc += 1
        c0 = float(numpy.sum(y0) * (x0[1] - x0[0]) / d2sum)
        rel = abs(cint / c0 - 1.0)
        # supplied tensor: life-time (Lorentzian) wings outside the retained window; a level
        # decaying with rate g loses the fraction (2/pi) g/W of its area beyond distance W
        tol_i = TOL_I
        if info["rates"] is not None:
            wmin = min(float(lines.min() - x[0]), float(x[-1] - lines.max()))
            gmax = float(numpy.max(numpy.abs(numpy.real(info["rates"]))))
            tol_i = TOL_I + 4.0 * (2.0 / numpy.pi) * gmax / max(wmin, 1e-300)
        worst("integral+tensor(rel. to bound)" if spec["tensor"] else "integral",
              rel / tol_i if spec["tensor"] else rel)
        if not rel <= tol_i:
            add("integral/coupling-dependent/" + kindtag,
                "integral of the raw spectrum per unit sum|d_k|^2 is %.6g with coupling and "
                "%.6g without (ratio-1 = %.3g)" % (cint, c0, cint / c0 - 1.0), None)

    # ---------------- purity when calculate raises --------------------------------------
    # NOT part of the claim: C11 quantifies over inputs/configurations with resolvable lines, not
    # over fault sequences or aggregates without environment.  On the pinned tree an exception
    # inside calculate() does leave Hamiltonian/dipoles/tensor transformed (no try/finally in
    # _calculate_aggregate); that observation is recorded in DESIGN.md §7 and can be re-enabled
    # with VERIF_C11_AFTER_RAISE=1, but it is not reported as a violation of this property.
    import os as _os
    from quantarhei.spectroscopy.abscalculator import AbsSpectrumCalculator as ASC
    ntrans = n if _os.environ.get("VERIF_C11_AFTER_RAISE") else 0
    for kpos in range(1, ntrans + 1):
        v = build(spec)
        vo = observed_objects(v)
        vs = snapshot(vo)
        orig = ASC.one_transition_spectrum
        count = [0]

        def faulty(self, tr, _orig=orig, _count=count, _k=kpos):
            _count[0] += 1
            if _count[0] == _k:
                raise Injected("injected at call %d of one_transition_spectrum" % _k)
            return _orig(self, tr)

        ASC.one_transition_spectrum = faulty
        raised = False
        try:
            try:
                v.calc.calculate(raw=True)
            except Injected:
                raised = True
        finally:
            ASC.one_transition_spectrum = orig
            isolation.reset_units()
        ncalc += 1
        if not raised:
            continue
        bad, w = changed(vo, vs)
        if bad:
            add("purity/after-raise/injected/" + "+".join(sorted(bad)),
                "an exception raised inside call %d of one_transition_spectrum leaves %s of the "
                "system changed (transformed to the exciton basis; max rel. change %.3g)"
                % (kpos, bad, w), {"position": kpos, "changed": bad})
    if kind == "aggregate" and _os.environ.get("VERIF_C11_AFTER_RAISE"):
        # an aggregate whose molecules have no environment: calculate raises by itself
        v = build(variant(spec, no_bath=True))
        vo = observed_objects(v)
        vs = snapshot(vo)
        refused = None
        try:
            v.calc.calculate(raw=True)
        except Exception as e:       # the refusal itself is allowed, its side effects are not
            refused = "%s: %s" % (type(e).__name__, str(e)[:80])
        finally:
            isolation.reset_units()
        ncalc += 1
        bad, w = changed(vo, vs)
        if bad:
            add("purity/after-raise/no-environment/" + "+".join(sorted(bad)),
                "calculate() on an aggregate without environment (%s) leaves %s changed"
                % (refused or "did not raise", bad), {"changed": bad, "raised": refused})

    nontrivial = bool(kind == "aggregate" and n >= 2 and coupled and resolved)
    ipk = int(numpy.argmax(y))
    outcome = [kindtag, n, round(float(y[ipk]), 6), ipk, round(cint, 6), round(d2sum, 6),
               [round(float(v), 8) for v in lines], fourier]
    return {"nontrivial": nontrivial, "outcome": outcome, "violations": list(viol.values()),
            "n": ncalc - 1,
            "info": {"dev": dev, "cint": cint,
                     "grp": [nt, dt, ("cf-matrix:" + case["cfm"]) if case.get("cfm")
                             else case["bath"], bool(spec["tensor"])],
                     "fourier": fourier, "case": case}}

# ------------------------------------------------------------------------------------------
# the from_dynamics route (same hfft / cut / axis bookkeeping, signal from a propagation)
# ------------------------------------------------------------------------------------------
def build_dynamics(spec, td):
    """System + calculator bootstrapped with a standard-Redfield propagator."""
    qr = isolation.qr()
    s = dict(spec)
    s["tensor"] = False
    s["rwa"] = "system"
    b = build(s)
    b.prop = b.system.get_ReducedDensityMatrixPropagator(b.ta, relaxation_theory="stR",
                                                         time_dependent=bool(td))
    isolation.reset_units()
    b.calc = qr.AbsSpectrumCalculator(b.ta, system=b.system)
    b.calc.bootstrap(prop=b.prop)
    isolation.reset_units()
    return b


def spectrum_dynamics(b):
    """(axis, data, captured first-order signal a(t)) of calculate(from_dynamics=True)."""
    from quantarhei.spectroscopy import abscalculator as AC
    got = {}
    orig = AC._spect_from_dyn_single

    def capture(*a, **k):
        r = orig(*a, **k)
        got["at"] = numpy.array(r, dtype=complex)
        return r

    AC._spect_from_dyn_single = capture
    try:
        sp = b.calc.calculate(raw=True, from_dynamics=True)
    finally:
        AC._spect_from_dyn_single = orig
        isolation.reset_units()
    return (numpy.array(sp.axis.data, dtype=float), numpy.array(sp.data, dtype=float),
            got.get("at"))


def fourier_clause_dynamics(b, x, y, at, tag, devprefix, add, worst):
    """Fourier clause of a from_dynamics spectrum (x, y) whose first-order signal field `at` was
    captured: the transform / axis bookkeeping only.  Returns the classification."""
    nt, dt = b.spec["Nt"], b.spec["dt"]
    fourier = "ok"
    carrier = float(b.calc.rwa)
    # the captured signal rotates at the carrier (propagation in the rotating frame)
    ref = AR.half_sided_sum(b.ta.data, at, x - carrier, dt)
    peak = float(numpy.max(numpy.abs(ref)))
    endpoint = 2.0 * float(numpy.abs(at[-1])) * dt      # end-point rule not prescribed
    okf, errf = approx(y, ref, TOL_F + endpoint / max(peak, 1e-300), scale=peak)
    if not okf:
        exp_axis = carrier + AR.expected_axis_offsets(nt, dt)
        cut = len(x) == nt and approx(x, exp_axis, TOL_R, scale=max(abs(carrier), 1.0))[0]
        oks, errs = False, float("inf")
        if len(y) == nt:
            sig = AR.hermitian_sum_nyquist(b.ta.data, at, AR.hfft_default_grid(nt, dt, 2), dt)
            oks, errs = approx(y, sig, TOL_R, scale=peak)
        if cut and oks:
            fourier = "shift+2"
            worst(devprefix + "fourier-vs-displaced-hfft-grid", errs / peak)
            add("fourier/axis-shift=+2/hfft-length",
                "from_dynamics spectrum is displaced by exactly two points on its axis (hfft "
                "default length 2(Nt-1) against an axis cut from the 2Nt-point axis); on-axis "
                "error %.3g of peak %.3g, error on the displaced grid %.2g" % (errf, peak, errs),
                {"on_axis_error": errf, "peak": peak, "displaced_grid_error": errs})
        else:
            fourier = "mismatch"
            add("fourier/mismatch/" + tag,
                "from_dynamics spectrum differs from the direct Fourier sum of its own signal "
                "field at the returned axis points by %.3g (peak %.3g); displaced-grid error "
                "%.3g, axis-is-2Nt-cut=%s" % (errf, peak, errs, cut),
                {"on_axis_error": errf, "peak": peak})
    else:
        worst(devprefix + "fourier", errf / peak)
    return fourier


def eval_dynamics(case, tier):
    spec = spec_of(case)
    td = bool(case["td"])
    viol, dev = {}, {}

    def add(key, what, det=None):
        if key not in viol:
            viol[key] = (key, what, det)

    def worst(name, x):
        dev[name] = max(dev.get(name, 0.0), float(x))

    nt, dt = spec["Nt"], spec["dt"]
    kind = spec["kind"]
    b = build_dynamics(spec, td)
    objs = observed_objects(b)
    snap = snapshot(objs)
    x, y, at = spectrum_dynamics(b)
    ncalc = 1
    bad, w = changed(objs, snap)
    worst("dynamics-purity", w)
    if bad:
        add("purity/after-calculate/dynamics/" + "+".join(sorted(bad)),
            "calculate(from_dynamics=True) changed %s of the system" % bad, {"changed": bad})
    x2, y2, at2 = spectrum_dynamics(b)
    ncalc += 1
    ok, rel = same_spectrum((x, y), (x2, y2), TOL_R)
    worst("dynamics-second-call", rel)
    if not ok:
        add("purity/second-call-differs/dynamics", "a second calculate(from_dynamics=True) "
            "returns a different spectrum (rel. dev %.3g)" % rel, None)
    if at is None or len(x) != len(y) or len(x) < 2 or not numpy.all(numpy.diff(x) > 0):
        add("axis/not-increasing-or-length/dynamics", "no signal captured or bad axis", None)
        return {"nontrivial": False, "outcome": "bad-axis", "violations": list(viol.values())}
    fourier = fourier_clause_dynamics(b, x, y, at, "dynamics", "dynamics-", add, worst)
    base = (x, y)
    for k in SCALES:
        v = build_dynamics(variant(spec, scale=k), td)
        xv, yv, _ = spectrum_dynamics(v)
        ncalc += 1
        ok, rel = same_spectrum(base, (xv, yv), TOL_R, factor=k * k)
        worst("dynamics-scaling", rel)
        if not ok:
            add("scaling/k^2/dynamics", "from_dynamics: S[%g d] differs from %g S[d] by %.3g"
                % (k, k * k, rel), {"k": k})
    if spec["dscale"] != 1.0:
        # dipole-scale dimension: against the unit-scale system
        ds = spec["dscale"]
        unit = dict(case)
        unit["dscale"] = 1.0
        v = build_dynamics(spec_of(unit), td)
        xv, yv, _ = spectrum_dynamics(v)
        ncalc += 1
        ok, rel = same_spectrum((xv, yv), base, TOL_R, factor=ds * ds)
        worst("dynamics-dipole-scale", rel)
        if not ok:
            add("scaling/dipole-scale-dimension/dynamics",
                "from_dynamics: S[s d] differs from s^2 S[d] by %.3g (relative to the peak of "
                "s^2 S[d]) for the common dipole factor s = %g" % (rel, ds), {"s": ds})
    for ir, rot in enumerate(rotations("quick")):
        v = build_dynamics(variant(spec, rot=rot), td)
        xv, yv, _ = spectrum_dynamics(v)
        ncalc += 1
        ok, rel = same_spectrum(base, (xv, yv), TOL_R)
        worst("dynamics-rotation", rel)
        if not ok:
            add("rotation/dynamics", "from_dynamics spectrum changes by %.3g under the common "
                "rotation #%d" % (rel, ir), {"rotation": numpy.asarray(rot).tolist()})
    if kind == "aggregate" and spec["n"] > 1:
        for perm in list(itertools.permutations(range(spec["n"])))[1:]:
            v = build_dynamics(variant(spec, perm=perm), td)
            xv, yv, _ = spectrum_dynamics(v)
            ncalc += 1
            ok, rel = same_spectrum(base, (xv, yv), TOL_R)
            worst("dynamics-relabel", rel)
            if not ok:
                add("relabel/dynamics", "from_dynamics spectrum changes by %.3g when molecules "
                    "are relabelled %s" % (rel, list(perm)), {"perm": list(perm)})
    coupled = kind == "aggregate" and (spec["dd"] or any(v != 0.0 for r in spec["J"] for v in r))
    ipk = int(numpy.argmax(y))
    return {"nontrivial": bool(coupled and spec["n"] > 1),
            "outcome": ["dynamics", kind, td, spec["n"], round(float(y[ipk]), 6), ipk, fourier],
            "violations": list(viol.values()), "n": ncalc - 1,
            "info": {"dev": dev, "cint": None, "grp": None, "fourier": "dynamics-" + fourier,
                     "case": case}}


# ------------------------------------------------------------------------------------------
# object histories: things done with the SAME aggregate object before the spectrum is calculated
# ------------------------------------------------------------------------------------------
HIST_OPS = {"D": "Aggregate.diagonalize()",
            "M": "MockAbsSpectrumCalculator bootstrap + calculate",
            "A": "another AbsSpectrumCalculator bootstrap + calculate",
            "R": "get_RelaxationTensor(standard Redfield, secular) + calculate with that tensor",
            "F": "get_ReducedDensityMatrixPropagator + calculate(from_dynamics=True)"}
HIST_SPECTRUM_OPS = {"M": "mock", "A": "lineshape", "R": "tensor", "F": "dynamics"}
HIST_ALPHABET = {"quick": "DMAR", "thorough": "DMARF"}
HIST_DEPTH = {"quick": 2, "thorough": 3}


def histories(tier):
    """ALL operation sequences of length 1..depth over the tier's alphabet, shortest first."""
    out = []
    for ln in range(1, HIST_DEPTH[tier] + 1):
        out += ["".join(p) for p in itertools.product(HIST_ALPHABET[tier], repeat=ln)]
    return out


def history_op(b, op, objs):
    """Performs one operation on b.system.  For operations that calculate a spectrum returns
    (objects to compare, snapshot taken just before the calculator is created, max of the spectrum);
    otherwise None."""
    qr = isolation.qr()
    agg = b.system
    try:
        if op == "D":
            agg.diagonalize()
            return None
        if op == "M":
            from quantarhei.spectroscopy.mockabscalculator import MockAbsSpectrumCalculator
            snap = snapshot(objs)
            calc = MockAbsSpectrumCalculator(b.ta, system=agg)
            calc.bootstrap(rwa=float(qr.convert(float(numpy.mean(b.spec["E"])), "1/cm", "int")),
                           shape="Gaussian")
            calc.set_width(float(qr.convert(80.0, "1/cm", "int")))
            sp = calc.calculate(raw=True)
            return objs, snap, float(numpy.max(sp.data))
        if op == "A":
            snap = snapshot(objs)
            calc = qr.AbsSpectrumCalculator(b.ta, system=agg)
            calc.bootstrap()
            sp = calc.calculate(raw=True)
            return objs, snap, float(numpy.max(sp.data))
        if op == "R":
            rr, ham = agg.get_RelaxationTensor(b.ta, relaxation_theory="standard_Redfield",
                                               secular_relaxation=True)
            isolation.reset_units()
            o = dict(objs)
            o["tensor"] = rr
            if ham is not objs["hamiltonian"]:
                o["effective-hamiltonian"] = ham
            snap = snapshot(o)
            calc = qr.AbsSpectrumCalculator(b.ta, system=agg, relaxation_tensor=rr,
                                            effective_hamiltonian=ham)
            calc.bootstrap()
            sp = calc.calculate(raw=True)
            return o, snap, float(numpy.max(sp.data))
        if op == "F":
            prop = agg.get_ReducedDensityMatrixPropagator(b.ta, relaxation_theory="stR",
                                                          time_dependent=False)
            isolation.reset_units()
            snap = snapshot(objs)
            calc = qr.AbsSpectrumCalculator(b.ta, system=agg)
            calc.bootstrap(prop=prop)
            sp = calc.calculate(raw=True, from_dynamics=True)
            return objs, snap, float(numpy.max(sp.data))
    finally:
        isolation.reset_units()
    raise ValueError(op)


def eval_history(case, tier):
    spec = spec_of(case)
    hist = case["hist"]
    viol, dev = {}, {}

    def add(key, what, det=None):
        if key not in viol:
            viol[key] = (key, what, det)

    def worst(name, x):
        dev[name] = max(dev.get(name, 0.0), float(x))

    qr = isolation.qr()
    # the same system, freshly built and never touched: what the spectrum has to be
    fresh = spectrum(build(spec), raw=True)
    ncalc = 1
    b = build(spec)
    objs = observed_objects(b)
    hlib = snapshot(objs)["hamiltonian"]
    peaks = []
    for pos, op in enumerate(hist):
        r = history_op(b, op, objs)
        ncalc += 1
        if r is None:
            continue
        o, snap, pk = r
        peaks.append(round(pk, 6))
        bad, w = changed(o, snap)
        worst("history-purity", w)
        if bad:
            add("purity/after-%s-spectrum/history/%s" % (HIST_SPECTRUM_OPS[op],
                                                         "+".join(sorted(bad))),
                "step %d of history %r (%s) changed %s of the system (max rel. change %.3g)"
                % (pos + 1, hist, HIST_OPS[op], bad, w), {"changed": bad, "step": pos + 1})
    if case["calc"] == "after":
        # calculator created only now (the one of build() was bootstrapped before the history)
        b.calc = qr.AbsSpectrumCalculator(b.ta, system=b.system)
        b.calc.bootstrap()
        isolation.reset_units()
    snap = snapshot(objs)
    base = spectrum(b, raw=True)
    ncalc += 1
    bad, w = changed(objs, snap)
    worst("history-purity", w)
    if bad:
        add("purity/after-calculate/history/" + "+".join(sorted(bad)),
            "calculate(raw=True) after history %r changed %s of the system (max rel. change "
            "%.3g)" % (hist, bad, w), {"changed": bad})
    fc = fourier_clause(b, base, hlib, None, "aggregate+history", add, worst)
    if fc is None:
        return {"nontrivial": False, "outcome": "bad-axis", "violations": list(viol.values()),
                "n": ncalc - 1}
    ok, rel = same_spectrum(fresh, base, TOL_R)
    worst("history-vs-fresh-object", rel)
    if not ok:
        add("history/spectrum-differs-from-fresh-object",
            "after history %r (%s) the spectrum of the aggregate differs by %.3g (relative) from "
            "the spectrum of an identical, freshly built aggregate"
            % (hist, "; ".join(HIST_OPS[o_] for o_ in hist), rel), {"hist": hist})
    x, y = base
    ipk = int(numpy.argmax(y))
    coupled = spec["dd"] or any(v != 0.0 for r_ in spec["J"] for v in r_)
    return {"nontrivial": bool(coupled and fc["resolved"] and spec["n"] > 1),
            "outcome": ["history", hist, case["calc"], spec["n"], round(float(y[ipk]), 6), ipk,
                        peaks, fc["fourier"]],
            "violations": list(viol.values()), "n": ncalc - 1,
            "info": {"dev": dev, "cint": None, "grp": None,
                     "fourier": "history-" + fc["fourier"], "case": case}}


# ------------------------------------------------------------------------------------------
# the SYSTEM changes under one calculator: couplings re-set + Aggregate.rebuild() between two
# calculate() calls of the same AbsSpectrumCalculator object
# ------------------------------------------------------------------------------------------
RECOUPLE_PATTERNS = {2: ["none", "chain60", "chain-120"],
                     3: ["none", "chain60", "chain-120", "full"]}
RECOUPLE_DEPTH = {"quick": 2, "thorough": 3}


def recouple_sequences(n, tier):
    """ALL sequences of coupling patterns of length 2..depth (first = pattern at build time)."""
    out = []
    for ln in range(2, RECOUPLE_DEPTH[tier] + 1):
        out += [list(p) for p in itertools.product(RECOUPLE_PATTERNS[n], repeat=ln)]
    return out


def eval_recouple(case, tier):
    seq = case["seq"]
    viol, dev = {}, {}

    def add(key, what, det=None):
        if key not in viol:
            viol[key] = (key, what, det)

    def worst(name, x):
        dev[name] = max(dev.get(name, 0.0), float(x))

    qr = isolation.qr()
    n = case["N"]
    c0 = dict(case)
    c0["coupling"] = seq[0]
    b = build(spec_of(c0))
    spectrum(b, raw=True)
    ncalc = 1
    fc = None
    base = None
    for pos, pat in enumerate(seq[1:]):
        ck = dict(case)
        ck["coupling"] = pat
        spec = spec_of(ck)
        # the user re-sets EVERY coupling of the same aggregate object and rebuilds it; the
        # calculator object (created and bootstrapped before) is used again
        with qr.energy_units("1/cm"):
            for i in range(n):
                for j in range(i + 1, n):
                    b.system.set_resonance_coupling(i, j, float(spec["J"][i][j]))
        isolation.reset_units()
        b.system.rebuild()
        isolation.reset_units()
        b.spec = spec
        objs = observed_objects(b)
        snap = snapshot(objs)
        hlib = snap["hamiltonian"].copy()
        base = spectrum(b, raw=True)
        ncalc += 1
        bad, w = changed(objs, snap)
        worst("recouple-purity", w)
        if bad:
            add("purity/after-calculate/recoupled/" + "+".join(sorted(bad)),
                "calculate(raw=True) on the re-used calculator after couplings %s -> %s and "
                "rebuild() changed %s (max rel. change %.3g)" % (seq[pos], pat, bad, w),
                {"changed": bad, "step": pos + 1})
        fc = fourier_clause(b, base, hlib, None, "aggregate+recoupled", add, worst)
        if fc is None:
            return {"nontrivial": False, "outcome": "bad-axis",
                    "violations": list(viol.values()), "n": ncalc - 1}
        fresh = spectrum(build(spec), raw=True)
        ncalc += 1
        ok, rel = same_spectrum(fresh, base, TOL_R)
        worst("recouple-vs-fresh-object", rel)
        if not ok:
            add("recouple/spectrum-differs-from-fresh-calculator",
                "same AbsSpectrumCalculator, couplings of its aggregate re-set %s -> %s + "
                "rebuild(): the spectrum differs by %.3g (relative) from the spectrum of a freshly "
                "built aggregate with these couplings and an unused calculator"
                % (seq[pos], pat, rel), {"seq": seq, "step": pos + 1})
    x, y = base
    ipk = int(numpy.argmax(y))
    return {"nontrivial": bool(seq[-1] != "none" and len(set(seq)) > 1 and fc["resolved"]),
            "outcome": ["recouple", seq, n, round(float(y[ipk]), 6), ipk, fc["fourier"]],
            "violations": list(viol.values()), "n": ncalc - 1,
            "info": {"dev": dev, "cint": None, "grp": None,
                     "fourier": "recouple-" + fc["fourier"], "case": case}}


# ------------------------------------------------------------------------------------------
# rotations that put a pair of molecules onto a lattice direction (dipole-dipole couplings)
# ------------------------------------------------------------------------------------------
def lattice_directions(tier):
    """The 13 axes of the cube (3 edges, 6 face diagonals, 4 body diagonals); thorough: both
    senses (26 directions)."""
    out = []
    for v in itertools.product((-1, 0, 1), repeat=3):
        if v == (0, 0, 0):
            continue
        first = [c for c in v if c != 0][0]
        if tier == "quick" and first < 0:
            continue
        out.append(list(v))
    return out


def rotation_onto(u, t):
    """Proper rotation taking the direction of u to the direction of t (shortest turn)."""
    u = numpy.asarray(u, dtype=float)
    t = numpy.asarray(t, dtype=float)
    u = u / numpy.sqrt(u.dot(u))
    t = t / numpy.sqrt(t.dot(t))
    ax = numpy.cross(u, t)
    s, c = float(numpy.sqrt(ax.dot(ax))), float(u.dot(t))
    if s < 1e-12:
        if c > 0:
            return numpy.eye(3)
        e = numpy.eye(3)[int(numpy.argmin(numpy.abs(u)))]
        return AR.rotation(numpy.cross(u, e), numpy.pi)
    return AR.rotation(ax, float(numpy.arctan2(s, c)))


def eval_pair_aligned(case, tier):
    spec = spec_of(case)
    viol, dev = {}, {}

    def add(key, what, det=None):
        if key not in viol:
            viol[key] = (key, what, det)

    def worst(name, x):
        dev[name] = max(dev.get(name, 0.0), float(x))

    n = spec["n"]
    b = build(spec)
    hlib = snapshot(observed_objects(b))["hamiltonian"]
    base = spectrum(b, raw=True)
    ncalc = 1
    fc = fourier_clause(b, base, hlib, None, "aggregate+pair-aligned", add, worst)
    if fc is None:
        return {"nontrivial": False, "outcome": "bad-axis", "violations": list(viol.values()),
                "n": 0}
    for i in range(n):
        for j in range(i + 1, n):
            u = numpy.asarray(spec["pos"][j]) - numpy.asarray(spec["pos"][i])
            for t in lattice_directions(tier):
                rot = rotation_onto(u, t)
                v = build(variant(spec, rot=rot))
                sv = spectrum(v, raw=True)
                ncalc += 1
                ok, rel = same_spectrum(base, sv, TOL_R)
                worst("rotation-pair-aligned", rel)
                if not ok:
                    add("rotation/pair-aligned/aggregate/dd",
                        "spectrum changes by %.3g (relative) under the common rotation of dipoles "
                        "and positions that puts the distance vector of molecules %d,%d along %s"
                        % (rel, i, j, t), {"pair": [i, j], "direction": t,
                                           "rotation": numpy.asarray(rot).tolist()})
    x, y = base
    ipk = int(numpy.argmax(y))
    return {"nontrivial": bool(fc["resolved"]),
            "outcome": ["pair-aligned", n, case["geom"], round(float(y[ipk]), 6), ipk,
                        fc["fourier"]],
            "violations": list(viol.values()), "n": ncalc - 1,
            "info": {"dev": dev, "cint": None, "grp": None,
                     "fourier": "pair-aligned-" + fc["fourier"], "case": case}}



# ------------------------------------------------------------------------------------------
# calculator histories: things done with ONE AbsSpectrumCalculator object
# ------------------------------------------------------------------------------------------
CALC_OPS = {"b": "bootstrap()",
            "p": "bootstrap(rwa=<mean transition energy> - 40 1/cm)",
            "q": "bootstrap(rwa=<mean transition energy> + 150 1/cm)",
            "w": "system.set_electronic_rwa([0, 1]) (RWA frequency supplied by the molecule "
                 "from now on)",
            "P": "bootstrap(prop=<standard Redfield propagator of the system>)",
            "c": "calculate(raw=True)",
            "f": "calculate(raw=True, from_dynamics=True)"}
CALC_RWA_OFFSETS = {"p": -40.0, "q": 150.0}         # 1/cm, relative to the mean site energy
CALC_BOOT, CALC_CALC = "bpqP", "cf"
# line-shape route: alphabet per system family; dynamics route: one alphabet
CALC_ALPHABET = {"molecule-explicit": "pqbwc", "system-rwa": "bpc", "dynamics": "bPcf"}
CALC_DEPTH = {"quick": {"molecule-explicit": 4, "system-rwa": 4, "dynamics": 4},
              "thorough": {"molecule-explicit": 5, "system-rwa": 5, "dynamics": 5}}


def calc_histories(family, depth):
    """ALL operation sequences of length 1..depth over the family's alphabet that end with a
    calculate operation (a trailing bootstrap has nothing observable) and in which
    from_dynamics is only requested while the calculator holds a propagator (the most recent
    bootstrap operation is P); shortest first."""
    out = []
    for ln in range(1, depth + 1):
        for p in itertools.product(CALC_ALPHABET[family], repeat=ln):
            h = "".join(p)
            if h[-1] not in CALC_CALC:
                continue
            ok = True
            for i, op in enumerate(h):
                if op == "f":
                    boots = [o for o in h[:i] if o in CALC_BOOT]
                    if not boots or boots[-1] != "P":
                        ok = False
            if ok:
                out.append(h)
    return out


def fresh_calculator(b):
    """A new, not yet bootstrapped calculator for the built system (same constructor arguments
    as the one made by build())."""
    qr = isolation.qr()
    if b.tensor is not None:
        return qr.AbsSpectrumCalculator(b.ta, system=b.system, relaxation_tensor=b.tensor,
                                        effective_hamiltonian=b.ham)
    return qr.AbsSpectrumCalculator(b.ta, system=b.system)


def eval_calc_history(case, tier):
    """History of ONE calculator object.  After every calculate operation: purity, the Fourier
    clause at the axis returned WITH THAT spectrum, and identity (class R) with every earlier
    spectrum of the same history that was calculated by the same route with the same carrier
    frequency calc.rwa."""
    spec = spec_of(case)
    hist = case["hist"]
    viol, dev = {}, {}

    def add(key, what, det=None):
        if key not in viol:
            viol[key] = (key, what, det)

    def worst(name, x):
        dev[name] = max(dev.get(name, 0.0), float(x))

    qr = isolation.qr()
    kind = spec["kind"]
    kindtag = kind + ("+tensor" if spec["tensor"] else "") + "+calculator-history"
    b = build(spec)
    prop = None
    if "P" in hist:
        prop = b.system.get_ReducedDensityMatrixPropagator(b.ta, relaxation_theory="stR",
                                                           time_dependent=False)
        isolation.reset_units()
    objs = observed_objects(b)
    snap0 = snapshot(objs)
    hlib = None if kind == "molecule" else snap0["hamiltonian"].copy()
    rsite = snap0.get("tensor")
    b.calc = fresh_calculator(b)            # the ONE calculator of this history
    emean = float(numpy.mean(spec["E"]))
    booted = False
    status = []
    seen = []                               # (route, carrier, axis, data, position)
    last = None
    fcl = "none"
    resolved = True
    ncalc = 0
    for pos, op in enumerate(hist):
        if op == "w":
            b.system.set_electronic_rwa([0, 1])
            status.append("w")
            continue
        if op in CALC_BOOT:
            try:
                if op == "b":
                    b.calc.bootstrap()
                elif op == "P":
                    b.calc.bootstrap(prop=prop)
                else:
                    with qr.energy_units("1/cm"):
                        b.calc.bootstrap(rwa=emean + CALC_RWA_OFFSETS[op])
                booted = True
                status.append(op)
            except Exception as e:
                # the documented refusal: no RWA frequency from the system and none given
                if "RWA not set" not in str(e):
                    raise
                status.append(op + ":refused")
            finally:
                isolation.reset_units()
            continue
        # ---- a calculate operation
        snap = snapshot(objs)
        ncalc += 1
        try:
            if op == "c":
                x, y = spectrum(b, raw=True)
                at = None
            else:
                x, y, at = spectrum_dynamics(b)
        except Exception as e:
            isolation.reset_units()
            # the documented refusal of a calculator that was never bootstrapped
            if booted or "bootstrapped first" not in str(e):
                raise
            status.append(op + ":refused")
            bad, w = changed(objs, snap)
            if bad:
                add("purity/after-refused-calculate/calculator-history/" + "+".join(sorted(bad)),
                    "step %d of calculator history %r: the refused calculate() changed %s"
                    % (pos + 1, hist, bad), {"changed": bad, "step": pos + 1})
            continue
        status.append(op)
        bad, w = changed(objs, snap)
        worst("calc-history-purity", w)
        if bad:
            add("purity/after-calculate/calculator-history/" + "+".join(sorted(bad)),
                "step %d of calculator history %r (%s) changed %s of the system (max rel. change "
                "%.3g)" % (pos + 1, hist, CALC_OPS[op], bad, w), {"changed": bad, "step": pos + 1})
        # Fourier clause on the axis returned with THIS spectrum
        if op == "c":
            fc = fourier_clause(b, (x, y), hlib, rsite, kindtag, add, worst)
            if fc is None:
                fcl = "bad-axis"
                continue
            fcl = fc["fourier"]
            resolved = fc["resolved"]
        else:
            if at is None or len(x) != len(y) or len(x) < 2 or \
                    not numpy.all(numpy.diff(x) > 0):
                add("axis/not-increasing-or-length/dynamics+calculator-history",
                    "no signal captured or bad axis", None)
                fcl = "bad-axis"
                continue
            fcl = fourier_clause_dynamics(b, x, y, at, "dynamics+calculator-history",
                                          "calc-history-dynamics-", add, worst)
        # same route, same carrier frequency => same spectrum on the same axis
        carrier = float(b.calc.rwa)
        for route0, car0, x0, y0, pos0 in seen:
            if route0 == op and car0 == carrier:
                ok, rel = same_spectrum((x0, y0), (x, y), TOL_R)
                worst("calc-history-same-carrier", rel)
                if not ok:
                    add("calculator-history/same-carrier-different-spectrum/" + kind,
                        "calculator history %r: the spectra returned by steps %d and %d (%s, "
                        "carrier frequency %.10g in both) differ by %.3g (relative) in data or "
                        "axis" % (hist, pos0 + 1, pos + 1, CALC_OPS[op], carrier, rel),
                        {"steps": [pos0 + 1, pos + 1]})
                break
        seen.append((op, carrier, x, y, pos))
        last = (x, y)
    if last is None:
        outcome = ["calc-history", kind, hist, status]
    else:
        x, y = last
        ipk = int(numpy.argmax(y))
        pk = float(y[ipk])
        outcome = ["calc-history", kind, spec["n"], hist, status, ipk,
                   float("%.6g" % pk), round(float(x[0]), 8), fcl]
    coupled = kind == "aggregate" and (spec["dd"] or any(v != 0.0 for r_ in spec["J"]
                                                         for v in r_))
    nboot = sum(1 for st in status if st in tuple(CALC_BOOT))
    return {"nontrivial": bool(last is not None and resolved and nboot >= 2
                               and (coupled or kind == "molecule")),
            "outcome": outcome, "violations": list(viol.values()), "n": max(ncalc - 1, 0),
            "info": {"dev": dev, "cint": None, "grp": None,
                     "fourier": "calc-history-" + fcl, "case": case}}


def replay(case):
    if "min" in case and "max" in case:      # run-level artefact: two systems of one group
        ra, rb = eval_case(case["min"]), eval_case(case["max"])
        ca, cb = ra["info"]["cint"], rb["info"]["cint"]
        rel = max(ca, cb) / min(ca, cb) - 1.0
        out = []
        if not rel <= TOL_I:
            out.append(("integral/not-proportional-across-systems",
                        "integral per unit sum|d_k|^2: %.6g vs %.6g (rel %.3g)" % (ca, cb, rel),
                        None))
        return out
    return eval_case(case)["violations"]


# ------------------------------------------------------------------------------------------
# the grid
# ------------------------------------------------------------------------------------------
AXES = {"quick": [[400, 1.0], [401, 1.0], [1000, 1.0]],
        "thorough": [[400, 1.0], [1000, 1.0], [401, 1.0], [400, 2.0]]}
AXES_TENSOR = {"quick": [[400, 1.0]],
               "thorough": [[400, 1.0], [401, 2.0], [1000, 1.0]]}
AXES_TD = {"quick": [[400, 1.0]], "thorough": [[400, 1.0], [401, 2.0]]}
AXES_DYN = AXES_TD
GEOMS_TENSOR_3 = ["012", "000", "310", "231", "102", "123", "320", "011"]


def _geoms(n, tier, tensor=False):
    if tier == "quick":
        return {1: ["0", "1"], 2: ["01", "00", "32"], 3: ["012", "000", "310"]}[n]
    if tensor and n == 3:
        return list(GEOMS_TENSOR_3)
    return ["".join(p) for p in itertools.product("0123", repeat=n)]


def sections(tier):
    """name -> complete product of that section's alphabets (simplest first)."""
    quick = tier == "quick"
    baths = ["same", "sitewise"] if quick else ["same", "sitewise", "cold"]
    nosite = [b for b in baths if b != "sitewise"]
    esets = ["wide"] if quick else ["wide", "narrow"]
    sec = {}
    sec["molecule"] = product({"kind": ["molecule"], "N": [1], "eset": esets,
                               "coupling": ["none"], "geom": _geoms(1, tier), "bath": nosite,
                               "tensor": [False], "rwa": ["system", "explicit"],
                               "axis": AXES[tier]})
    agg = []
    for n in (1, 2, 3):
        coup = ["none"] if n == 1 else (["none", "chain60", "chain-120", "dd"] +
                                       (["full"] if n == 3 else []))
        agg += product({"kind": ["aggregate"], "N": [n], "eset": esets, "coupling": coup,
                        "geom": _geoms(n, tier), "bath": baths if n > 1 else nosite,
                        "tensor": [False], "axis": AXES[tier]})
    # non-zero common ground-state energy (coupled aggregates, one geometry/bath/axis each)
    for n in (2, 3):
        for coup in (["chain60"] if quick else ["chain60", "dd", "chain-120"]):
            agg += product({"kind": ["aggregate"], "N": [n], "eset": ["wide"], "coupling": [coup],
                            "geom": _geoms(n, tier)[:1], "bath": ["same"], "tensor": [False],
                            "axis": AXES[tier][:1], "e0": [150.0, -300.0]})
    sec["aggregate"] = agg
    ten = []
    for n in (2, 3):
        coup = ["chain60", "chain-120", "dd"] + (["full"] if n == 3 else [])
        ten += product({"kind": ["aggregate"], "N": [n], "eset": esets, "coupling": coup,
                        "geom": _geoms(n, tier, tensor=True), "bath": baths,
                        "tensor": [True], "axis": AXES_TENSOR[tier]})
    sec["aggregate+tensor"] = ten
    tdt = []
    for n in (2,) if quick else (2, 3):
        tdt += product({"kind": ["aggregate"], "N": [n], "eset": esets,
                        "coupling": ["chain60", "dd"] + (["full"] if n == 3 else []),
                        "geom": _geoms(n, "quick"), "bath": ["same", "sitewise"],
                        "tensor": ["td"], "axis": AXES_TD[tier]})
    sec["aggregate+td-tensor"] = tdt
    dyn = product({"route": ["dynamics"], "kind": ["molecule"], "N": [1], "eset": ["wide"],
                   "coupling": ["none"], "geom": ["1"], "bath": ["same"], "tensor": [False],
                   "td": [False, True], "axis": AXES_DYN[tier]})
    for n in (2,) if quick else (2, 3):
        dyn += product({"route": ["dynamics"], "kind": ["aggregate"], "N": [n], "eset": esets,
                        "coupling": ["none", "chain60", "dd"],
                        "geom": _geoms(n, "quick"), "bath": ["same", "sitewise"],
                        "tensor": [False], "td": [False] if quick else [False, True],
                        "axis": AXES_DYN[tier]})
    sec["dynamics"] = dyn
    # ---- user-supplied CorrelationFunctionMatrix with site-off-diagonal (cross-correlation)
    # entries: N x pattern x coupling x geometry x tensor x axis
    cfmp = {2: ["diag", "all", "partial"],
            3: ["pair02", "all", "partial", "pair01"] if quick else
               ["diag", "all", "pair01", "pair02", "pair12", "partial", "partial01"]}
    cfs_ = []
    for n in (2, 3):
        coup = ["chain60", "dd"] + ([] if quick else ["chain-120"]) + (["full"] if n == 3 else [])
        cfs_ += product({"kind": ["aggregate"], "N": [n], "eset": esets, "coupling": coup,
                         "geom": _geoms(n, "quick")[:2] if quick else _geoms(n, "quick"),
                         "bath": ["same"], "cfm": cfmp[n], "tensor": [False, True],
                         "axis": AXES_TENSOR[tier][:2]})
    sec["aggregate+cf-matrix"] = cfs_
    # ---- Hamiltonians carrying a split-off remainder coupling: N x mode x cut-off value x
    # coupling x geometry x bath x axis.  Values (1/cm) lie below / between / above the couplings
    # of the patterns (|J| = 35, 60, 120; dipole-dipole 10..440)
    cuts = []
    cutvals = [50.0, 100.0] if quick else [25.0, 50.0, 100.0, 200.0]
    for n in (2, 3):
        coup = ["chain60", "dd"] + ([] if quick else ["chain-120"]) + (["full"] if n == 3 else [])
        for mode in ("remove", "subtract", "effective-RF"):
            eff = mode == "effective-RF"
            cuts += product({"kind": ["aggregate"], "N": [n], "eset": esets, "coupling": coup,
                             "geom": _geoms(n, "quick")[:1] if quick else _geoms(n, "quick"),
                             "bath": ["same", "sitewise"],
                             "cutoff": [[mode, v] for v in cutvals],
                             # (the time-dependent combined tensor cannot be constructed on
                             # the pinned tree: TypeError inside get_RelaxationTensor)
                             "tensor": [True] if eff else [False],
                             "axis": AXES_TD[tier]})
    sec["aggregate+cutoff"] = cuts
    # ---- histories of the aggregate OBJECT before the spectrum: system x ALL operation
    # sequences up to the depth x calculator created before/after the history
    his = []
    for n in (2, 3):
        coup = ["chain60", "dd"] + (["full"] if n == 3 else [])
        his += product({"route": ["history"], "kind": ["aggregate"], "N": [n], "eset": ["wide"],
                        "coupling": coup, "geom": _geoms(n, "quick")[:1 if quick else 2],
                        "bath": ["sitewise"] if quick else ["same", "sitewise"],
                        "tensor": [False], "hist": histories(tier),
                        "calc": ["before", "after"], "axis": AXES_TD[tier][:1]})
    sec["history"] = his
    # ---- dipole-scale dimension: kind x N x energy set (incl. identical molecules -> exactly
    # dark states) x coupling x geometry x bath x tensor x COMMON DIPOLE FACTOR x axis; every
    # clause of eval_case at every scale + S[s d] = s^2 S[d] against the unit-scale system
    dsc = product({"kind": ["molecule"], "N": [1], "eset": ["wide"], "coupling": ["none"],
                   "geom": _geoms(1, "quick"), "bath": ["same"], "tensor": [False],
                   "rwa": ["system", "explicit"],
                   # s = 1e3 would give the isolated molecule a radiative width ~ |d|^2 comparable
                   # with its line width (the k^2 law is not physical there): not in the product
                   "dscale": [s_ for s_ in DSCALES if s_ <= 1.0], "axis": AXES_TD[tier]})
    for n in (2, 3):
        coup = ["chain60", "dd"] + ([] if quick else ["chain-120"]) + (["full"] if n == 3 else [])
        dsc += product({"kind": ["aggregate"], "N": [n],
                        "eset": ["wide", "equal"] if quick else ["wide", "narrow", "equal"],
                        "coupling": coup,
                        "geom": _geoms(n, "quick")[:2] if quick else _geoms(n, "quick"),
                        "bath": ["sitewise"] if quick else ["same", "sitewise"],
                        "tensor": [False, True], "dscale": DSCALES, "axis": AXES_TD[tier]})
    for n in (2,) if quick else (2, 3):
        dsc += product({"route": ["dynamics"], "kind": ["aggregate"], "N": [n], "eset": ["wide"],
                        "coupling": ["chain60"] if quick else ["chain60", "dd"],
                        "geom": _geoms(n, "quick")[:1], "bath": ["sitewise"], "tensor": [False],
                        "td": [False], "dscale": DSCALES[1:], "axis": AXES_DYN[tier][:1]})
    sec["dipole-scale"] = dsc
    # ---- histories of ONE calculator object: system x ALL operation sequences up to the depth
    # (ending with a calculate operation) over the family's alphabet
    chs = []
    depth = CALC_DEPTH[tier]
    chs += product({"route": ["calc-history"], "family": ["molecule-explicit"],
                    "kind": ["molecule"], "N": [1], "eset": ["wide"], "coupling": ["none"],
                    "geom": ["1"], "bath": ["same"], "tensor": [False], "rwa": ["explicit"],
                    "hist": calc_histories("molecule-explicit", depth["molecule-explicit"]),
                    "axis": AXES_TD[tier]})
    hsys = calc_histories("system-rwa", depth["system-rwa"])
    chs += product({"route": ["calc-history"], "family": ["system-rwa"],
                    "kind": ["molecule"], "N": [1], "eset": ["wide"], "coupling": ["none"],
                    "geom": ["1"], "bath": ["same"], "tensor": [False], "rwa": ["system"],
                    "hist": hsys, "axis": AXES_TD[tier]})
    for n in (2, 3):
        coup = [["chain60"], ["dd"]][n - 2] if quick else \
            (["chain60", "dd"] + (["full"] if n == 3 else []))
        chs += product({"route": ["calc-history"], "family": ["system-rwa"],
                        "kind": ["aggregate"], "N": [n], "eset": ["wide"], "coupling": coup,
                        "geom": _geoms(n, "quick")[:1], "bath": ["sitewise"],
                        "tensor": [False, True], "hist": hsys, "axis": AXES_TD[tier]})
    hdyn = calc_histories("dynamics", depth["dynamics"])
    chs += product({"route": ["calc-history"], "family": ["dynamics"],
                    "kind": ["molecule"], "N": [1], "eset": ["wide"], "coupling": ["none"],
                    "geom": ["1"], "bath": ["same"], "tensor": [False], "rwa": ["system"],
                    "hist": hdyn, "axis": AXES_TD[tier][:1]})
    for n in (2,) if quick else (2, 3):
        chs += product({"route": ["calc-history"], "family": ["dynamics"],
                        "kind": ["aggregate"], "N": [n], "eset": ["wide"],
                        "coupling": ["chain60"] if quick else ["chain60", "dd"],
                        "geom": _geoms(n, "quick")[:1], "bath": ["sitewise"],
                        "tensor": [False], "hist": hdyn, "axis": AXES_TD[tier][:1]})
    sec["calculator-history"] = chs
    # ---- the aggregate changes under ONE calculator: N x ALL sequences of coupling patterns
    # (length 2..depth) x bath; after every re-coupling + rebuild(): purity, Fourier clause,
    # identity with a freshly built aggregate + unused calculator
    rec = []
    for n in (2, 3):
        rec += product({"route": ["recouple"], "kind": ["aggregate"], "N": [n], "eset": ["wide"],
                        "coupling": ["none"], "seq": recouple_sequences(n, tier),
                        "geom": _geoms(n, "quick")[:1], "bath": ["same", "sitewise"],
                        "tensor": [False], "axis": AXES_TD[tier][:1]})
    sec["recouple"] = rec
    # ---- dipole-dipole couplings: N x geometry x bath x (inside) ALL pairs x ALL lattice
    # directions the pair's distance vector is rotated onto
    pal = []
    for n in (2, 3):
        pal += product({"route": ["pair-aligned"], "kind": ["aggregate"], "N": [n],
                        "eset": ["wide"], "coupling": ["dd"],
                        "geom": _geoms(n, "quick")[:2 if quick else 3],
                        "bath": ["same"] if quick else ["same", "sitewise"],
                        "tensor": [False], "axis": AXES_TD[tier][:1]})
    sec["rotation-pair-aligned"] = pal
    for lst in sec.values():
        for c in lst:
            c["Nt"], c["dt"] = int(c["axis"][0]), float(c["axis"][1])
            del c["axis"]
            c["_tier"] = tier
    return sec


def cases(tier):
    out = []
    for lst in sections(tier).values():
        out += lst
    return out


def run(run):
    from mc.explore import rotate
    run.rule = ("twelve complete products (molecule / aggregate / aggregate+static Redfield "
                "tensor / aggregate+time-dependent tensor / from_dynamics route / aggregate with "
                "user-supplied correlation-function matrix with cross-correlations / aggregate "
                "whose Hamiltonian carries a split-off remainder coupling / histories of the "
                "aggregate object / common dipole factor / histories of one calculator object / "
                "couplings of the aggregate re-set + rebuild() under one calculator object: ALL "
                "sequences of coupling patterns up to the depth / dipole-dipole aggregates under "
                "ALL rotations putting a pair of molecules onto a lattice direction) of "
                "kind x N x energy set x coupling pattern x dipole geometry "
                "x bath pattern x time axis [x correlation-matrix pattern] [x cut-off mode x "
                "value] [x ALL operation sequences up to the depth x calculator created "
                "before/after] [x common dipole factor s] [x ALL sequences of calculator "
                "operations up to the depth that end with a calculate operation]; inside each "
                "point (history section: purity of every step, "
                "Fourier clause and identity with a fresh object only; calculator-history "
                "section: purity + Fourier clause at the returned axis after every calculate "
                "operation, identity of spectra of the same route and carrier) ALL rotations of "
                "the tier, all relabellings, both scale factors and the uncoupled partner; "
                "non-trivial = aggregate of >= 2 molecules with "
                "non-zero coupling and non-degenerate exciton levels (calculator-history "
                "section: a spectrum returned after at least two successful bootstraps, system "
                "a molecule or a coupled aggregate)")
    run.assumptions = [
        "reference: mc/refmodels/absorption_ref.py (direct O(Nt*Nw) Fourier sum at the returned "
        "axis points; g(t) by two successive cubic-spline cumulative integrations of the "
        "exciton-weighted site correlation functions sampled by the library objects)",
        "when a relaxation tensor is supplied the reference line shape contains the factor "
        "exp(R_aaaa t) with R taken from the supplied tensor (site basis, before the call) and "
        "transformed by the reference's own eigenvectors",
        "monomer: the calculator adds the radiative life time of the molecule (rate ~ |d|^2 w^3, "
        "1e-10..1e-8 /fs) to the line; the reference takes that rate from the molecule; because "
        "it scales with |d|^2 the monomer scaling clause uses 1e-6 instead of 1e-10",
        "dipole-dipole coupling mode: the one-exciton block of the built Hamiltonian is taken as "
        "given (C03 owns the coupling formula); scaling keeps J fixed through eps_r -> k^2 eps_r",
        "the private flag _has_system_bath_coupling (created on the aggregate by calculate) is "
        "not part of the property statement and is not checked",
        "from_dynamics route: the first-order signal field a(t) produced by the propagation is "
        "captured (harness wrapper around abscalculator._spect_from_dyn_single) and only the "
        "transform/axis bookkeeping, the symmetry relations and purity are checked; a(t) itself "
        "has no independent reference here",
        "MockAbsSpectrumCalculator: its phenomenological line shapes (no dipole correlation "
        "function) are not compared with anything; its bootstrap+calculate is a step of the "
        "history section (purity of the step, effect on later spectra)",
        "correlation-function matrix section: the reference sums the FULL square "
        "sum_{k,l} c_k^2 c_l^2 C_kl(t) of the functions handed to set_correlation_function; "
        "all patterns are symmetric (C_kl = C_lk) and fill the whole diagonal",
        "cut-off section: the one-exciton block of the Hamiltonian the calculator works with "
        "(system Hamiltonian after remove/subtract_cutoff_coupling, or the effective Hamiltonian "
        "of the combined Redfield-Foerster theory) is taken as given; its remainder coupling JR "
        "and flag are part of the Hamiltonian for the purity clause; the time-dependent combined "
        "tensor is not in the grid because get_RelaxationTensor cannot construct it on the "
        "pinned tree (TypeError in tdredfieldfoerster.py)",
        "history section: purity of a spectrum-calculating step is measured from just before "
        "its calculator object is created (Mock's bootstrap diagonalises the aggregate) to after "
        "calculate(); get_RelaxationTensor / get_ReducedDensityMatrixPropagator themselves are "
        "not spectrum calculations and lie outside the snapshot",
        "dipole-scale section: the common factor s multiplies every dipole handed to "
        "Molecule.set_dipole; in dipole-dipole mode eps_r is multiplied by s^2 so that the "
        "couplings (hence lines and line shapes) stay those of the unit-scale system up to "
        "rounding; isolated molecule: s <= 1 only (its radiative width scales with s^2)",
        "calculator-history section: the propagator handed to bootstrap(prop=) is built once "
        "before the history (standard Redfield, time-independent); from_dynamics is requested "
        "only while the most recent bootstrap operation supplied it (otherwise the call has no "
        "propagator to work with); the exceptions 'Calculator must be bootstrapped first' "
        "(no successful bootstrap yet) and 'RWA not set by system nor explicitely' are the "
        "documented refusals, any other exception is a crash; the carrier frequency used to "
        "group spectra and to recognise the known displacement is the calculator's public "
        "attribute rwa at the time of the call, the Fourier reference itself does not use it "
        "(line-shape route)",
        "recouple section: between two calculate() calls of one calculator every coupling of "
        "its aggregate is re-set with set_resonance_coupling (also to 0) and Aggregate.rebuild() "
        "is called; no tensor is supplied (a supplied tensor would belong to the old couplings)",
        "rotation-pair-aligned section: rotation = shortest turn taking the distance vector of "
        "the pair onto the lattice direction (edges, face and body diagonals of the cube); the "
        "un-rotated spectrum is the reference (TOL_R), couplings set by "
        "set_coupling_by_dipole_dipole",
    ]
    run.bounds = {"N": [1, 2, 3], "time axes [Nt, dt/fs]": AXES[run.tier],
                  "time axes with static tensor": AXES_TENSOR[run.tier],
                  "time axes with time-dependent tensor / dynamics route": AXES_TD[run.tier],
                  "rotations": len(rotations(run.tier)),
                  "rotations in the dynamics section": len(rotations("quick")),
                  "scales": SCALES,
                  "relabellings": "all N!", "fault positions": "every call 1..N + no-environment",
                  "correlation-matrix patterns": "N=2: diag, all, partial; N=3: + pairXY, "
                                                 "partial01 (quick: 4 of them)",
                  "cut-off": "modes remove/subtract/effective-RF x values (1/cm) "
                             "[50,100] quick, [25,50,100,200] thorough",
                  "history": {"alphabet": HIST_ALPHABET[run.tier], "depth": HIST_DEPTH[run.tier],
                              "sequences": len(histories(run.tier)),
                              "calculator": ["before", "after"]},
                  "dipole factors s (dipole-scale section)": DSCALES,
                  "recouple": {"patterns": RECOUPLE_PATTERNS, "depth": RECOUPLE_DEPTH[run.tier],
                               "sequences": {str(n_): len(recouple_sequences(n_, run.tier))
                                             for n_ in (2, 3)}},
                  "rotation-pair-aligned": {"directions": len(lattice_directions(run.tier)),
                                            "pairs": "all N(N-1)/2"},
                  "calculator-history": {"alphabets": CALC_ALPHABET,
                                         "depth": CALC_DEPTH[run.tier],
                                         "sequences": {f: len(calc_histories(
                                             f, CALC_DEPTH[run.tier][f])) for f in CALC_ALPHABET},
                                         "rwa offsets from the mean site energy (1/cm)":
                                             CALC_RWA_OFFSETS},
                  "tolerances": {"fourier": TOL_F, "rounding": TOL_R, "integral": TOL_I,
                                 "monomer-scaling": TOL_MONO_SCALE}}
    infos = []
    for name, cs in sections(run.tier).items():
        infos += run_grid(run, rotate(cs, run.seed), eval_case, chunksize=1, section=name)
    # worst deviations per clause and run-level proportionality of the integral
    devs = {}
    groups = {}
    fstat = {}
    for i in infos:
        for k, v in i["dev"].items():
            devs[k] = max(devs.get(k, 0.0), v)
        fstat[i["fourier"]] = fstat.get(i["fourier"], 0) + 1
        if i["grp"] is not None and not i["grp"][3]:   # life-time wings: tensor cases only per case
            groups.setdefault(tuple(i["grp"]), []).append((i["cint"], i["case"]))
    spread = 0.0
    for g, lst in sorted(groups.items()):
        lst = sorted(lst, key=lambda t: (t[0], str(t[1])))
        cmin, cmax = lst[0], lst[-1]
        rel = cmax[0] / cmin[0] - 1.0
        spread = max(spread, rel)
        if not rel <= TOL_I:
            run.violation("integral/not-proportional-across-systems",
                          "integral per unit sum|d_k|^2 differs by %.3g between systems on the "
                          "same time axis/bath group %s" % (rel, list(g)),
                          {"min": cmin[1], "max": cmax[1]}, {"cmin": cmin[0], "cmax": cmax[0]})
    devs["integral-across-systems"] = spread
    run.note(worst_deviation=devs, fourier_classification=fstat)
