"""C13 Fourier transforms and time/frequency axes are mutually inverse.

E-grid over (direction, axis type, length, step, start) with linearity closure:
inside every grid point the transform is run on the complete (real-)basis
{delta_k, i*delta_k} of the data space, which decides the clause for all complex
data on that axis.
"""
import numpy

from mc import isolation
from mc.explore import run_grid, approx, product
from mc.refmodels import fourier_sum as FS

LEVEL = "model_checking"
TOL = 1e-10


def _axis(case):
    qr = isolation.qr()
    N, dt, kind = case["N"], case["step"], case["start"]
    if kind == "zero":
        start = 0.0
    elif kind == "centred":
        start = -(N // 2) * dt
    else:
        start = float(kind)
    if case["dir"] == "t":
        mut = case.get("mut")
        if mut == "atype-set-after":
            # HISTORY: constructed with the other type, the attribute is set afterwards
            other = "complete" if case["atype"] == "upper-half" else "upper-half"
            ax = qr.TimeAxis(start, N, dt, atype=other)
            ax.atype = case["atype"]
        elif mut == "shift_to_zero":
            # HISTORY: constructed somewhere else, then moved so that it starts at `start`...
            ax = qr.TimeAxis(start + 7.5 * dt, N, dt, atype=case["atype"])
            ax.shift_to_zero()
            if start != 0.0:
                raise isolation.HarnessError("shift_to_zero cases use start 0")
        else:
            ax = qr.TimeAxis(start, N, dt, atype=case["atype"])
    else:
        with qr.energy_units("int"):
            ax = qr.FrequencyAxis(start, N, dt, atype=case["atype"])
    return ax, start


def _ax(a):
    """(data, start, step) in internal units, whatever units are current."""
    qr = isolation.qr()
    with qr.energy_units("int"):
        return numpy.array(a.data, copy=True), float(a.start), float(a.step)


def _same_axis(a, b):
    with isolation.qr().energy_units("int"):
        return _same_axis_int(a, b)


def _same_axis_int(a, b):
    bad = []
    if type(a) is not type(b):
        bad.append("class")
    if a.length != b.length:
        bad.append("length")
    if a.atype != b.atype:
        bad.append("atype")
    if a.length == b.length:
        if not approx(a.data, b.data, TOL, scale=max(1.0, float(numpy.max(numpy.abs(a.data)))))[0]:
            bad.append("data")
    if abs(a.step - b.step) > TOL * max(1.0, abs(a.step)):
        bad.append("step")
    if abs(a.start - b.start) > TOL * max(1.0, abs(a.start), abs(a.step)):
        bad.append("start")
    return bad


def eval_case(case):
    qr = isolation.qr()
    ctx = case.get("ctx")
    if ctx:
        # the whole scenario runs inside a units context: transforms and axis conjugation
        # must not depend on the units that happen to be current
        with qr.energy_units(ctx):
            res = _eval(case)
        for i, v in enumerate(res["violations"]):
            res["violations"][i] = (v[0] + "/inside-energy_units(%s)" % ctx,) + tuple(v[1:])
        return res
    return _eval(case)


def _eval(case):
    qr = isolation.qr()
    viol = []
    ax, start = _axis(case)
    N, dt = case["N"], case["step"]
    parity = "odd" if N % 2 else "even"
    tag = "%s/%s/%s" % (case["dir"], case["atype"], parity)
    outcome = []

    # ---- clause 1: axis round trip ----------------------------------
    refused = False
    try:
        conj_ax = ax.get_FrequencyAxis() if case["dir"] == "t" else ax.get_TimeAxis()
    except Exception as e:
        if case["dir"] == "w" and case["atype"] == "upper-half" and N % 2 == 1:
            # documented: an upper-half frequency axis has 2N points by definition
            return {"nontrivial": False, "outcome": "refused-odd-upper-half",
                    "violations": []}
        raise
    back = conj_ax.get_TimeAxis() if case["dir"] == "t" else conj_ax.get_FrequencyAxis()
    bad = _same_axis(ax, back)
    # the same way back through COPIES of the axes (spectroscopy classes work on axis.copy())
    try:
        cc = conj_ax.copy()
        back_c = cc.get_TimeAxis() if case["dir"] == "t" else cc.get_FrequencyAxis()
        badc = _same_axis(ax, back_c) or _same_axis(conj_ax, cc)
        ac = ax.copy()
        conj_c = ac.get_FrequencyAxis() if case["dir"] == "t" else ac.get_TimeAxis()
        badc = badc or _same_axis(conj_ax, conj_c)
    except Exception as e:
        badc = ["raises-%s" % type(e).__name__]
    if badc and not bad:
        viol.append(("axis-roundtrip-through-copy/%s/%s" % ("%s/%s" % (case["dir"], case["atype"]),
                                                           "+".join(badc)),
                     "axis (start=%g,N=%d,step=%g): the round trip through copy() of the axes "
                     "differs: %s" % (start, N, dt, badc), None))
    if bad:
        viol.append(("axis-roundtrip/%s/%s" % (tag, "+".join(bad)),
                     "axis (start=%g,N=%d,step=%g) does not map back to itself: %s"
                     % (start, N, dt, bad),
                     {"orig": [ax.start, ax.length, ax.step],
                      "back": [back.start, back.length, back.step]}))
    # conjugate axis against the independent formula
    exp_len, exp_step, exp_start0 = FS.conjugate_axis(N, dt, case["atype"], case["dir"])
    cstep = _ax(conj_ax)[2]
    if conj_ax.length != exp_len or abs(cstep - exp_step) > TOL * abs(exp_step):
        viol.append(("conjugate-axis/%s/grid" % tag,
                     "conjugate axis has length/step %s/%g, expected %d/%g"
                     % (conj_ax.length, cstep, exp_len, exp_step), None))
    outcome.append([conj_ax.length, round(float(cstep), 9)])

    # ---- clauses 2+3 on the complete basis of the data space ------------
    sum_applies = ((case["atype"] == "upper-half" and case["start"] == "zero") or
                   (case["atype"] == "complete" and case["start"] == "centred"))
    worst_sum, worst_rt = 0.0, 0.0
    nbasis = 0
    for k in range(N):
        # amplitudes: the transforms are linear, the size of the data must not matter (1e-9:
        # every component is below the absolute tolerances of numpy.allclose / isclose)
        for phase in (1.0, 1.0j, 1.0e-9, 1.0e-9j):
            if case["dir"] == "w" and case["atype"] == "upper-half":
                # functions on a half frequency axis are only meaningful as images of
                # Hermitian-extended time functions; those are reached from the time side
                # (dir=t, upper-half).  Only the axis clause is checked from this side.
                continue
            nbasis += 1
            amp = abs(phase)
            y = numpy.zeros(N, dtype=complex)
            y[k] = phase
            f = qr.DFunction(ax, y.copy())
            F = f.get_Fourier_transform()
            if sum_applies and case["dir"] == "t":
                ref = FS.direct_sum(_ax(ax)[0], y, dt, _ax(F.axis)[0], case["atype"])
                ok, err = approx(F.data, ref, TOL, scale=abs(dt) * amp)
                worst_sum = max(worst_sum, err)
                if not ok:
                    viol.append(("ft-sum/%s" % tag,
                                 "FT of delta_%d*%s on %s time axis N=%d differs from the "
                                 "direct Fourier sum by %g (dt=%g)"
                                 % (k, phase, case["atype"], N, err, dt), {"k": k}))
            # the data may get into the object in other ways than through the constructor:
            # a function built from REAL samples and made complex afterwards (apply_to_data,
            # assignment) is the same function of the same axis
            for route in ("apply_to_data", "assign"):
                f2 = qr.DFunction(ax, numpy.ones(N, dtype=float))
                try:
                    if route == "apply_to_data":
                        f2.apply_to_data(lambda d, _y=y: d * _y)
                    else:
                        f2.data = y.copy()
                    F2 = f2.get_Fourier_transform()
                    ok2, err2 = approx(F2.data, F.data, TOL, scale=abs(dt) * amp)
                except Exception as e:
                    ok2, err2 = False, float("inf")
                if not ok2:
                    viol.append(("ft-depends-on-how-the-data-were-set/%s/%s" % (route, tag),
                                 "FT of delta_%d*%s set by %s on a function constructed from real "
                                 "samples differs from the FT of the same function constructed "
                                 "directly by %g (N=%d)" % (k, phase, route, err2, N), {"k": k}))
            # the rarely used window option: FT(f, window=W) is the FT of f*W (W with
            # pairwise different values != 1, so every index is told apart)
            if case["dir"] == "t":
                Wv = 1.0 - (numpy.arange(N) + 1.0) / (2.0 * N + 3.0)
                Fw = f.get_Fourier_transform(window=qr.DFunction(ax, Wv.copy()))
                Fr = qr.DFunction(ax, y * Wv).get_Fourier_transform()
                okw, errw = approx(Fw.data, Fr.data, TOL, scale=abs(dt) * amp)
                if not okw:
                    viol.append(("ft-window/%s" % tag,
                                 "FT(delta_%d*%s, window=W) differs from FT(delta*W) by %g (N=%d)"
                                 % (k, phase, errw, N), {"k": k}))
                # storage types of function and window: real samples with a complex window
                # and complex samples with a real or complex window are the same product f*W
                Wc = Wv * numpy.exp(1j * (0.3 + 0.2 * numpy.arange(N)))
                variants = [("complex-data/complex-window", y.copy(), Wc)]
                if numpy.imag(phase) == 0:
                    yr = numpy.real(y).astype(float)
                    variants += [("real-data/complex-window", yr, Wc),
                                 ("real-data/real-window", yr, Wv)]
                for vname, yv, wv in variants:
                    Fv = qr.DFunction(ax, yv.copy()).get_Fourier_transform(
                        window=qr.DFunction(ax, wv.copy()))
                    Fr2 = qr.DFunction(ax, (yv * wv).astype(complex)).get_Fourier_transform()
                    okv, errv = approx(Fv.data, Fr2.data, TOL, scale=abs(dt) * amp)
                    if not okv:
                        viol.append(("ft-window/%s/%s" % (vname, tag),
                                     "FT(delta_%d*%s, window=W) with %s differs from FT(delta*W) "
                                     "by %g (N=%d)" % (k, phase, vname, errv, N), {"k": k}))
            # round trip
            Fkeep = numpy.array(F.data, copy=True)
            g = F.get_inverse_Fourier_transform()
            # SECOND USE of the same objects: a transform is a function of its argument, which
            # it must leave alone - the same call again gives the same function
            g_again = F.get_inverse_Fourier_transform()
            F_again = f.get_Fourier_transform()
            if not numpy.array_equal(numpy.asarray(f.data), y) or \
                    not numpy.array_equal(numpy.asarray(F.data), Fkeep):
                viol.append(("transform-changed-its-argument/%s" % tag,
                             "the data of the transformed function changed (delta_%d*%s, N=%d): "
                             "|d f|=%g |d F|=%g" % (k, phase, N,
                                                    float(numpy.max(numpy.abs(f.data - y))),
                                                    float(numpy.max(numpy.abs(F.data - Fkeep)))),
                             {"k": k}))
            if not approx(g_again.data, g.data, TOL, scale=amp)[0] or \
                    not approx(F_again.data, Fkeep, TOL, scale=abs(dt) * amp)[0]:
                viol.append(("second-transform-of-same-object-differs/%s" % tag,
                             "transforming the same object a second time gives another function "
                             "(delta_%d*%s, N=%d)" % (k, phase, N), {"k": k}))
            badax = _same_axis(ax, g.axis)
            ok, err = approx(g.data, y, TOL, scale=amp)
            worst_rt = max(worst_rt, err if numpy.isfinite(err) else 1e300)
            if not ok or badax:
                viol.append(("roundtrip/%s/%s" % (tag, "values" if not ok else "axis"),
                             "FT then inverse FT of delta_%d*%s (N=%d, start=%g) differs "
                             "by %g; axis defects %s" % (k, phase, N, start, err, badax),
                             {"k": k}))
            # the other order: inverse first, then forward.  For complete axes both maps
            # are bijective linear maps on C^N, so a left inverse is a right inverse: this is
            # implied by the property.  Not so for upper-half axes (not claimed there).
            if case["atype"] != "complete":
                continue
            G = f.get_inverse_Fourier_transform()
            g2 = G.get_Fourier_transform()
            ok2, err2 = approx(g2.data, y, TOL, scale=amp)
            if not ok2 or _same_axis(ax, g2.axis):
                viol.append(("roundtrip-inv-first/%s" % tag,
                             "inverse FT then FT of delta_%d*%s (N=%d, start=%g) differs by %g"
                             % (k, phase, N, start, err2), {"k": k}))
    # de-duplicate per clause key: keep first of each key
    seen, v2 = set(), []
    for v in viol:
        if v[0] not in seen:
            seen.add(v[0])
            v2.append(v)
    outcome.append([round(worst_sum, 6), round(worst_rt, 6)])
    return {"nontrivial": True, "outcome": [tag, case["N"], case["step"], case["start"], case.get("ctx"),
                                            case.get("mut")],
            "violations": v2, "n": nbasis}



def replay(case):
    return eval_case(case)["violations"]


def cases(tier):
    Ns = list(range(2, 10)) if tier == "quick" else list(range(2, 18)) + [32, 33, 64, 101]
    dom = {"ctx": [None, "1/cm"], "dir": ["t", "w"], "atype": ["complete", "upper-half"],
           "start": ["zero", "centred", 3.0, -1.25], "step": [1.0, 0.5, 2.0, 0.37, -1.0],
           "N": Ns}
    cs = product(dom)
    # histories on the TimeAxis object before the conjugate axis is requested
    for mut in ("atype-set-after", "shift_to_zero"):
        d2 = dict(dom, dir=["t"], mut=[mut])
        d2["start"] = ["zero"] if mut == "shift_to_zero" else dom["start"]
        d2["step"] = [1.0, 0.37]
        cs += product(d2)
    return cs


def run(run):
    run.rule = ("full product direction x axis type x start x step x length; inside each "
                "point all basis vectors delta_k and i*delta_k of the data space are "
                "transformed (linearity closure); non-trivial = every evaluated point "
                "(refused odd upper-half frequency axes are counted trivial)")
    run.assumptions = ["reference: direct O(N^2) Fourier sums in mc/refmodels/fourier_sum.py",
                       "FT-sum clause only for upper-half axes starting at 0 and complete "
                       "axes centred at zero, as the property states"]
    run.bounds = {"lengths": "2..9" if run.tier == "quick" else "2..17,32,33,64,101",
                  "steps": [1.0, 0.5, 2.0, 0.37], "starts": ["0", "-(N//2)dt", 3.0, -1.25]}
    run_grid(run, cases(run.tier), eval_case)
