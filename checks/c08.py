"""C08 Evolution superoperator is an identity-started semigroup matching propagation.

G: full product  system x generator x grid length Nt x grid step;  inside every point ALL
   dense-step settings, ALL grid index pairs (semigroup law), ALL grid times (trace,
   Hermiticity) and ALL matrix units E_nm (linearity closure L: "applied to any state") are
   checked.
H: the incremental mode is driven through real histories calculate_next(save)^k on fresh
   objects; every prefix k <= Nt-1 of the uniform histories save=False^k / save=True^k is a
   state that is compared with index k of the mode="all" calculation and with the reference
   model.  Words that MIX the two save flags are explored as a prefix tree (pruned where the
   library refuses by raising).

Oracles (mc/refmodels/semigroup.py, numpy/scipy only):
   generator  Lmat = -i[H,.] + R   (R = 4-index tensor, or GKSL sum built from the operators)
   scheme     poly[i]  = T_4(Lmat*step/Nd)^(Nd*i)      (rounding tolerance)
   exact      exact[i] = expm(Lmat*t_i)                (truncation bound of DESIGN 1.5)

Clauses -> violation keys
   U(0)=1                               identity/{all,jit}                      exact
   U(t_i+t_j)=U(t_i)U(t_j), all pairs   semigroup/all                           R*growth
   trace, Hermiticity at every time     trace/.., hermiticity/..                R
   U(t_i):E_nm = propagate(E_nm)(t_i)   propagate/same-dense/{Nref,fine-axis}/<form>   R
                                        propagate/other-dense/<form>            T (both bounds)
   observation points apply()/at()      apply/<calling form>/{differs,raises-<Type>},
                                        apply/grid-time-located-one-index-low   exact
   jit after k steps = all at index k   jit/save=<F|T>/{first,later}-step-differs-from-all,
                                        jit/save=T/saved-history-differs-from-all, jit/../now-counter
   mixed save words                     jit/mixed-save/accepted-but-wrong (raising = refusal)
   dense N -> 2N                        refinement/doubling-exceeds-truncation-bound    T
   absolute oracles on both modes       scheme-reference/<mode>/<form> (R), exponential/<mode>/<form> (T)

Pure dephasing dimension (`pdeph=` of EvolutionSuperOperator, `PDeph=` of the propagator):
   a second complete product  system x relaxation (none / tensor form / operator form) x
   dephasing kind (Lorentzian, Gaussian) x rate pattern (uniform, all-distinct) x step x Nt
   runs through the SAME clauses; <form> in the keys becomes e.g. "ten+pdeph-L".
   The dephasing is applied by the library element-wise after every elementary step
   (operator splitting); mc/refmodels/semigroup.DephasingGrid is that scheme in numpy.
   * Lorentzian: time independent -> generator L - diag(g) -> every clause of the property
     applies.  exact = expm((L-diag(g))t); the bound uses the COMPUTED one-step defect
     ||D T_4 - expm((L-diag(g))ddt)|| (Taylor truncation + first-order splitting).
   * Gaussian: the factor of step k depends on the absolute time t_k, i.e. the generator is
     time DEPENDENT.  EvolutionSuperOperator supports it explicitly (own branch in calculate()
     and calculate_next(): every interval is propagated on its own dense axis starting at
     t_{i-1}), so what the property can claim is: U(0)=1, trace/Hermiticity, jit==all, step by
     step == all at once, and U(t_i) applied to a state == direct propagation of that state
     from time zero (same elementary step: rounding).  NOT claimed: the semigroup law (false
     for a time-dependent generator: U(t_i+t_j,0) = U(t_i+t_j,t_j)U(t_j,0) != U(t_i)U(t_j)).
     Closed form exists where diag(g) commutes with L (e.g. diagonal H with population decay
     or site dephasing): exp(-g t^2/2) o expm(Lt) - used as absolute oracle with the plain
     Taylor bound; in the non-commuting Gaussian sub-family the clauses that need a truncation
     bound (exponential, other-dense, refinement doubling) are not evaluated, the rounding-
     level clauses (scheme reference, same-dense propagation, jit==all) are.
   * dephasing WITHOUT a relaxation tensor is part of the product; on the pinned tree the
     propagator raises AttributeError (no attribute 'RelaxationTensor') for it in every entry
     point, so neither side of any clause exists: counted as unsupported configuration.
   extra key: pdeph/set_PureDephasing-differs-from-constructor

Complex Hermitian Hamiltonians ("*-complex" systems) are part of the system alphabet of every
product: their eigenvector matrix S is complex unitary (S^-1 = S^+ != S^T).

Observation context dimension {outside, inside `with eigenbasis_of(op)`}  (third product):
   system x generator [x pure dephasing] x op in {H, fixed complex Hermitian X} x step x Nt,
   inside every point all dense settings.  The object is calculated OUTSIDE (library
   requirement) and observed inside.  Keys  context/eigenbasis_of(<op>)/...
      identity, trace, hermiticity, semigroup (all index pairs)        seen in data inside
      basis-invariant-differs-from-outside   sum_ab U[a,b,a,b](t_i) inside == outside
      at(t)-differs-from-data, at(t)-after-exit-differs-from-outside, data-after-exit-differs
      <calling form>/differs-from-direct-propagation/<form>   apply(float), at(t).apply of every
            SITE matrix unit; apply(float,copy=False) of every matrix unit of the CONTEXT's
            basis (made inside); read after the context is left, compared with direct
            propagation of that state done outside (same elementary step: rounding)
      apply('all')|apply(list)/differs-from-apply(float)       inside the context
      jit/save=<F|T>/differs-from-all        history (calculate_next; look inside)^k
   All oracles are independent of the choice of the eigenbasis.

Refinement-request histories on ONE propagator (fourth product), clause "U(t) rho == direct
propagation": all words of length <= 3 over {setDtRefinement(N), propagate(rho),
propagate(rho,Nref=N)}, N in {1,2,5}, ending with a propagation; fresh propagator per (word,
matrix unit); reference = semigroup.effective_refinement (last request decides, counted from
the time-axis step).  Keys (smallest failing word only; its shape, N abstracted, is in the key)
      propagate/refinement-history/<shape>/differs-from-superoperator/<form>
      propagate/refinement-history/<shape>/differs-from-fresh-propagator/<form>
"""
import numpy

from mc import isolation, systems
from mc.explore import run_grid, product, rotate
from mc.refmodels import semigroup as SG

LEVEL = "model_checking"
RTOL = 1e-10          # class R
ORDER = 4             # declared order of the short-exponential scheme used by the class
DENSE = [1, 2, 5, 50]

# ---------------------------------------------------------------------------------- systems
# explicit Hamiltonians in internal units (rad/fs): 0.01 rad/fs = 53 1/cm
HAMS = {
    "d2-diag": [[0.0, 0.0], [0.0, 0.02]],
    "d2-coupled": [[0.0, 0.006], [0.006, 0.02]],
    "d2-degenerate": [[0.01, 0.005], [0.005, 0.01]],
    "d3-diag": [[0.0, 0, 0], [0, 0.01, 0], [0, 0, 0.025]],
    "d3-coupled": [[0.0, 0.004, 0.0], [0.004, 0.01, 0.003], [0.0, 0.003, 0.025]],
    "d3-degenerate": [[0.0, 0.0, 0.0], [0.0, 0.012, -0.004], [0.0, -0.004, 0.012]],
    "d4-diag": [[0.0, 0, 0, 0], [0, 0.008, 0, 0], [0, 0, 0.008, 0], [0, 0, 0, 0.03]],
    "d4-coupled": [[0.0, 0.002, 0, 0], [0.002, 0.008, 0.005, -0.001], [0, 0.005, 0.015, 0.004],
                   [0, -0.001, 0.004, 0.03]],
    "d4-degenerate": [[0.0, 0, 0, 0], [0, 0.01, 0.003, 0.003], [0, 0.003, 0.01, 0.003],
                      [0, 0.003, 0.003, 0.01]],
    # complex Hermitian Hamiltonians: the eigenvector matrix is complex unitary (S^-1 = S^+ and
    # NOT S^T), H^T != H
    "d2-complex": [[0.0, 0.006 + 0.004j], [0.006 - 0.004j, 0.02]],
    "d3-complex": [[0.0, 0.004 + 0.003j, 0.0], [0.004 - 0.003j, 0.01, 0.003j],
                   [0.0, -0.003j, 0.025]],
    "d3-complex-degenerate": [[0.0, 0.002j, -0.002j], [-0.002j, 0.012, -0.004j],
                              [0.002j, 0.004j, 0.012]],
    "d4-complex": [[0.0, 0.002j, 0, 0], [-0.002j, 0.008, 0.005 - 0.002j, -0.001],
                   [0, 0.005 + 0.002j, 0.015, 0.004j], [0, -0.001, -0.004j, 0.03]],
}
COMPLEX_HAMS = [h for h in HAMS if "complex" in h]


def _lindblad_set(name, d):
    """(operators, rates) of a Lindblad form; rates in 1/fs."""
    def unit(i, j, v=1.0):
        k = numpy.zeros((d, d))
        k[i, j] = v
        return k
    if name == "decay":                     # one lowering operator
        return [unit(0, d - 1)], [0.004]
    if name == "mixed":                     # transfer + a non-normal, non-projector operator
        k2 = unit(d - 1, 1)
        k2[1, 1] = 0.5
        return [unit(0, 1), k2], [0.003, 0.007]
    if name == "dephasing":                 # site projectors with different rates
        return [unit(i, i) for i in range(d)], [0.002 * (i + 1) for i in range(d)]
    raise isolation.HarnessError(name)


AGGS = {
    "dimer": dict(en=[12000.0, 12100.0], J="chain:30", bath=dict(reorg=30.0, cortime=60.0, T=300.0)),
    "homodimer-77K": dict(en=[12000.0, 12000.0], J="chain:-50",
                          bath=dict(reorg=50.0, cortime=100.0, T=77.0)),
    "trimer": dict(en=[12000.0, 12100.0, 12250.0], J="full:40,-25,15",
                   bath=dict(reorg=30.0, cortime=60.0, T=300.0)),
    "trimer-degenerate": dict(en=[12100.0, 12100.0, 12250.0], J="full:-35,20,20",
                              bath=dict(reorg=20.0, cortime=80.0, T=150.0)),
}

GENS_EXPLICIT = ["none"] + ["lindblad-%s-%s" % (s, f) for s in ("decay", "mixed", "dephasing")
                            for f in ("ten", "op")]
GENS_AGG = ["redfield-ten", "redfield-op"]

# pure dephasing: kind x rate pattern.  Rates are symmetric with a zero diagonal (the only
# matrices for which element-wise damping preserves trace and Hermiticity).  Lorentzian rates
# in 1/fs, Gaussian "rates" in 1/fs^2 (coherence ~ exp(-g t^2/2), g=4e-4 <-> 50 fs).
PDEPH = ["L-uniform", "L-distinct", "G-uniform", "G-distinct"]
PKIND = {"L": "Lorentzian", "G": "Gaussian"}


def _drates(name, d):
    kind, pattern = name.split("-")
    g = numpy.zeros((d, d))
    for a in range(d):
        for b in range(d):
            if a == b:
                continue
            if pattern == "uniform":
                g[a, b] = 0.005 if kind == "L" else 4e-4
            elif pattern == "distinct":
                lo, df = min(a, b), abs(a - b)
                g[a, b] = (0.002 * (1 + df) + 0.0015 * lo if kind == "L"
                           else 2e-4 * (1 + df) + 1e-4 * lo)
            else:
                raise isolation.HarnessError(name)
    return PKIND[kind], g


def _build_agg(spec, as_operators):
    qr = isolation.qr()
    ta = qr.TimeAxis(0.0, 400, 1.0)
    n = len(spec["en"])
    kind, vals = spec["J"].split(":")
    vals = [float(x) for x in vals.split(",")]
    J = systems.chain_J(n, vals[0]) if kind == "chain" else systems.full_J(n, vals)
    agg = systems.aggregate(spec["en"], J, bath=spec["bath"], ta=ta)
    RR, hh = agg.get_RelaxationTensor(ta, relaxation_theory="standard_Redfield",
                                      time_dependent=False, as_operators=as_operators)
    isolation.reset_units()
    return hh, RR


def build(case):
    """-> dict(ham, relt, Lmat, dim, form, coupled, pdeph, pkind, gamma)
    (real objects + reference generator; pdeph=None without pure dephasing)"""
    sysd = _build_generator(case)
    sysd.update(pdeph=None, pkind=None, gamma=None)
    if case.get("pdeph"):
        from quantarhei.qm import PureDephasing
        kind, g = _drates(case["pdeph"], sysd["dim"])
        sysd.update(pdeph=PureDephasing(drates=g.copy(), dtype=kind), pkind=kind, gamma=g,
                    form="%s+pdeph-%s" % (sysd["form"], kind[0]))
    return sysd


def _grid(sysd, step, nd, Nt):
    if sysd["pdeph"] is None:
        return SG.Grid(sysd["Lmat"], step, nd, Nt, ORDER)
    return SG.DephasingGrid(sysd["Lmat"], sysd["gamma"], sysd["pkind"], step, nd, Nt, ORDER)


def _build_generator(case):
    qr = isolation.qr()
    from quantarhei.qm import LindbladForm, SystemBathInteraction, Operator
    sysn, gen = case["sys"], case["gen"]
    if sysn in HAMS:
        H = numpy.array(HAMS[sysn])
        H = H.astype(complex) if numpy.iscomplexobj(H) else H.astype(float)
        if not numpy.array_equal(H, H.conj().T):
            raise isolation.HarnessError("Hamiltonian %s is not Hermitian" % sysn)
        d = H.shape[0]
        hh = qr.Hamiltonian(data=H.copy())
        offdiag = bool(numpy.any(H - numpy.diag(numpy.diag(H))))
        if gen == "none":
            return dict(ham=hh, relt=None, Lmat=SG.liouvillian_hamiltonian(H), dim=d,
                        form="none", coupled=offdiag, exact_scheme=True)
        _, setn, form = gen.split("-")
        ops, rates = _lindblad_set(setn, d)
        sbi = SystemBathInteraction([Operator(data=k.copy()) for k in ops], rates=list(rates))
        LF = LindbladForm(hh, sbi, as_operators=(form == "op"))
        return dict(ham=hh, relt=LF, Lmat=SG.liouvillian_lindblad(H, ops, rates), dim=d,
                    form=form, coupled=True, exact_scheme=True)
    spec = AGGS[sysn]
    form = gen.split("-")[1]
    hh, RR = _build_agg(spec, as_operators=(form == "op"))
    if form == "op":
        # reference generator from the tensor form of an identically built second aggregate.
        # It is used ONLY for truncation-bounded clauses (the equality of the two forms to
        # rounding is property C07, not C08).
        hh2, RR2 = _build_agg(spec, as_operators=False)
        Hm = numpy.array(hh2.get_RWA_data() if hh2.has_rwa else hh2.data)
        Rm = numpy.array(RR2.data)
    else:
        Hm = numpy.array(hh.get_RWA_data() if hh.has_rwa else hh.data)
        Rm = numpy.array(RR.data)
    return dict(ham=hh, relt=RR, Lmat=SG.liouvillian_tensor(Hm, Rm), dim=hh.dim, form=form,
                coupled=True, exact_scheme=(form == "ten"))


# ---------------------------------------------------------------------------------- helpers
class Viol:
    def __init__(self):
        self.items, self.keys = [], set()
        self.worst = {}

    def add(self, key, what, details=None):
        if key not in self.keys:
            self.keys.add(key)
            self.items.append((key, what, details))

    def see(self, clause, err, tol):
        """worst deviation per clause: absolute and relative to its tolerance"""
        w = self.worst.setdefault(clause, [0.0, 0.0])
        if not numpy.isfinite(err):
            err = 1e300
        w[0] = max(w[0], float(err))
        w[1] = max(w[1], float(err) / max(tol, 1e-300))


def _dev(a, b):
    a = numpy.asarray(a)
    b = numpy.asarray(b)
    if a.shape != b.shape:
        return float("inf")
    if not (numpy.all(numpy.isfinite(a)) and numpy.all(numpy.isfinite(b))):
        return float("inf")
    return float(numpy.max(numpy.abs(a - b))) if a.size else 0.0


def _amax(a):
    return float(numpy.max(numpy.abs(a)))


def _eso(sysd, ta, nd, mode):
    qr = isolation.qr()
    if sysd["pdeph"] is None:
        e = qr.qm.EvolutionSuperOperator(time=ta, ham=sysd["ham"], relt=sysd["relt"], mode=mode)
    else:
        e = qr.qm.EvolutionSuperOperator(time=ta, ham=sysd["ham"], relt=sysd["relt"],
                                         pdeph=sysd["pdeph"], mode=mode)
    e.set_dense_dt(nd)
    return e


def _calc_all(sysd, ta, nd):
    """mode='all' calculation -> (eso, data copy) or (None, reason)"""
    e = _eso(sysd, ta, nd, "all")
    try:
        e.calculate()
    except AttributeError as ex:
        if sysd["relt"] is None and "is_time_dependent" in str(ex):
            # calculate() needs a relaxation tensor object: configuration not supported
            return None, "all-mode-without-relaxation-tensor-raises-AttributeError"
        raise
    return e, numpy.array(e.data, copy=True)


def _OpR(E):
    from quantarhei.qm import Operator
    return Operator(data=numpy.array(E, dtype=float, copy=True))


def _unit_rho(d, n, m):
    qr = isolation.qr()
    r = qr.ReducedDensityMatrix(dim=d)
    r.data[n, m] = 1.0
    return r


def _propagate_units(sysd, ta, nref):
    """direct propagation of every matrix unit: P[i, :, :, n, m] = rho_nm(t_i)"""
    qr = isolation.qr()
    d = sysd["dim"]
    kw = {}
    if sysd["relt"] is not None:
        kw["RTensor"] = sysd["relt"]
    if sysd["pdeph"] is not None:
        kw["PDeph"] = sysd["pdeph"]
    prop = qr.qm.ReducedDensityMatrixPropagator(ta, sysd["ham"], **kw)
    if nref != 1:
        prop.setDtRefinement(nref)
    P = numpy.zeros((ta.length, d, d, d, d), dtype=complex)
    for n in range(d):
        for m in range(d):
            ev = prop.propagate(_unit_rho(d, n, m))
            P[:, :, :, n, m] = ev.data
    return P


def _current(e):
    """the 'present' superoperator of a jit object"""
    dat = numpy.asarray(e.data)
    if dat.ndim == 5:
        return dat[e.now] if 0 <= e.now < dat.shape[0] else None
    return dat


# ---------------------------------------------------------------------------------- clauses
def _check_all_mode(V, sysd, ta, nd, g, U, tag):
    d, Nt = sysd["dim"], ta.length
    form = sysd["form"]
    one = SG.identity_tensor(d)
    # U(0) = 1 : exact
    if not numpy.array_equal(U[0], one):
        V.add("identity/all", "%s: U(t_0) is not the identity superoperator (max dev %g)"
              % (tag, _dev(U[0], one)), None)
    gmax = max(1.0, max(_amax(U[i]) for i in range(Nt)))
    # trace preservation and Hermiticity at every time
    for i in range(Nt):
        s = max(1.0, _amax(U[i]))
        e1, e2 = SG.trace_defect(U[i]), SG.hermiticity_defect(U[i])
        V.see("trace", e1, RTOL * s * d)
        V.see("hermiticity", e2, RTOL * s)
        if not e1 <= RTOL * s * d:
            V.add("trace/all", "%s: sum_a U[a,a,c,d](t_%d) differs from delta_cd by %g"
                  % (tag, i, e1), {"i": i, "nd": nd, "err": e1})
        if not e2 <= RTOL * s:
            V.add("hermiticity/all", "%s: conj(U[a,b,c,d]) != U[b,a,d,c] at t_%d, dev %g"
                  % (tag, i, e2), {"i": i, "nd": nd, "err": e2})
    # semigroup law for ALL index pairs i+j < Nt (time-independent generators only: with
    # Gaussian dephasing the generator depends on time and the law does not hold)
    for i in (range(Nt) if getattr(g, "time_independent", True) else ()):
        for j in range(i, Nt - i):
            tol = RTOL * d * d * max(1.0, _amax(U[i])) * max(1.0, _amax(U[j]))
            lhs = U[i + j]
            e1 = _dev(lhs, SG.compose(U[i], U[j]))
            e2 = _dev(lhs, SG.compose(U[j], U[i]))
            V.see("semigroup", max(e1, e2), tol)
            if not max(e1, e2) <= tol:
                V.add("semigroup/all", "%s: U(t_%d+t_%d) != U(t_%d)U(t_%d), dev %g (tol %g)"
                      % (tag, i, j, i, j, max(e1, e2), tol),
                      {"i": i, "j": j, "nd": nd, "err": max(e1, e2)})
    # absolute oracles
    for i in range(Nt):
        if sysd["exact_scheme"]:
            tol = RTOL * g.growth[i] ** 2
            e1 = _dev(U[i], g.poly_tensor(i))
            V.see("scheme-reference", e1, tol)
            if not e1 <= tol:
                V.add("scheme-reference/all/%s" % form,
                      "%s: U(t_%d) differs from T_4(L dt/%d)^(%d) of the reference generator by %g"
                      % (tag, i, nd, nd * i, e1), {"i": i, "nd": nd, "err": e1})
        if g.bound is None:          # no closed form (non-commuting Gaussian dephasing)
            continue
        tol = 2 * g.bound[i] + RTOL * g.growth[i] ** 2
        e1 = _dev(U[i], g.exact_tensor(i))
        V.see("exponential", e1, tol)
        if not e1 <= tol:
            V.add("exponential/all/%s" % form,
                  "%s: U(t_%d) differs from expm(L t) by %g, truncation bound 2x%g"
                  % (tag, i, e1, g.bound[i]), {"i": i, "nd": nd, "err": e1, "bound": g.bound[i]})
    return gmax


def _check_apply(V, sysd, ta, eso, U, tag):
    """observation points apply(t, rho) and at(t) against the stored tensors, all matrix
    units.  Expected value is the harness' own contraction of U[i] with the unit."""
    qr = isolation.qr()
    d, Nt = sysd["dim"], ta.length
    times = [float(t) for t in ta.data]

    # one root cause -> one key: calling forms that share a code path are grouped
    GROUP = {"apply(tuple)": "apply(tuple|TimeAxis)", "apply(equal-TimeAxis)": "apply(tuple|TimeAxis)",
             "apply(sub-TimeAxis)": "apply(tuple|TimeAxis)", "apply(sub-list)": "apply(list)",
             "apply(float,copy=False)": "apply(float)"}

    def classify(form, i, got, n, m):
        exp = U[i][:, :, n, m]
        e = _dev(got, exp)
        if e <= RTOL * max(1.0, _amax(exp)):
            V.see("apply", e, RTOL * max(1.0, _amax(exp)))
            return
        if i > 0 and _dev(got, U[i - 1][:, :, n, m]) <= RTOL * max(1.0, _amax(exp)):
            V.add("apply/grid-time-located-one-index-low",
                  "%s: %s at the axis' own grid time t_%d=%r returns the value of index %d "
                  "(step %r)" % (tag, form, i, times[i], i - 1, ta.step),
                  {"i": i, "t": times[i], "form": form})
        else:
            V.see("apply", e, RTOL * max(1.0, _amax(exp)))
            V.add("apply/%s/differs" % GROUP.get(form, form),
                  "%s: %s at t_%d differs from U[%d]:E_%d%d by %g" % (tag, form, i, i, n, m, e),
                  {"i": i, "n": n, "m": m})

    def guarded(form, f):
        try:
            return f()
        except Exception as ex:          # a documented calling form that raises
            V.add("apply/%s/raises-%s" % (GROUP.get(form, form), type(ex).__name__),
                  "%s: %s raises %s: %s" % (tag, form, type(ex).__name__, str(ex)[:120]), None)
            return None

    # at(t): the tensor itself
    for i in range(Nt):
        so = guarded("at(t)", lambda: eso.at(times[i]))
        if so is None:
            break
        e = _dev(so.data, U[i])
        if e > 0 and i > 0 and _dev(so.data, U[i - 1]) == 0:
            V.add("apply/grid-time-located-one-index-low",
                  "%s: at(t) at the axis' own grid time t_%d=%r returns index %d (step %r)"
                  % (tag, i, times[i], i - 1, ta.step), {"i": i, "t": times[i], "form": "at(t)"})
        elif e > 0:
            V.add("apply/at(t)/differs", "%s: at(t_%d) differs from data[%d] by %g"
                  % (tag, i, i, e), None)
    # at() without a time ("the whole data object") is not an observation the property speaks
    # about (it raises for the all-times layout on the pinned tree); not checked.
    sub_idx = list(range(0, Nt, 2))
    sub_list = [times[i] for i in sub_idx]
    for n in range(d):
        for m in range(d):
            rho = _unit_rho(d, n, m)
            before = numpy.array(rho.data, copy=True)
            # float time, copying and in-place
            for i in range(Nt):
                r = guarded("apply(float)", lambda: eso.apply(times[i], rho))
                if r is None:
                    break
                classify("apply(float)", i, r.data, n, m)
                if r is rho or not numpy.array_equal(rho.data, before):
                    V.add("apply/apply(float)/argument-modified",
                          "%s: apply(t, rho) with copy=True changed its argument" % tag, None)
                r2 = _unit_rho(d, n, m)
                r3 = guarded("apply(float,copy=False)", lambda: eso.apply(times[i], r2, copy=False))
                if r3 is not None:
                    classify("apply(float,copy=False)", i, r3.data, n, m)
                # the same with a state whose data were given as REAL numbers (the usual way a
                # population / real coherence is typed in): the result is complex all the same
                E = numpy.zeros((d, d))
                E[n, m] = 1.0
                r2r = qr.ReducedDensityMatrix(data=E.copy()) if n == m else None
                if r2r is None:
                    from quantarhei.qm import Operator as _Op
                    r2r = _Op(data=E.copy())
                r3r = guarded("apply(float,copy=False)",
                              lambda: eso.apply(times[i], r2r, copy=False))
                if r3r is not None:
                    classify("apply(float,copy=False)", i, r3r.data, n, m)
                so_r = guarded("at(t)", lambda: eso.at(times[i]))
                if so_r is not None:
                    E2 = qr.ReducedDensityMatrix(data=E.copy()) if n == m else _OpR(E)
                    r5 = guarded("at(t).apply", lambda: so_r.apply(E2, copy=False))
                    if r5 is not None:
                        classify("at(t).apply", i, r5.data, n, m)
                # at(t) used as a plain SuperOperator
                so = guarded("at(t)", lambda: eso.at(times[i]))
                if so is not None:
                    r4 = guarded("at(t).apply", lambda: so.apply(rho))
                    if r4 is not None:
                        classify("at(t).apply", i, r4.data, n, m)
            # many times at once: documented forms of the `time` argument
            forms = [("apply('all')", lambda: eso.apply("all", rho), list(range(Nt))),
                     ("apply(own-axis)", lambda: eso.apply(eso.time, rho), list(range(Nt))),
                     ("apply(list)", lambda: eso.apply(list(times), rho), list(range(Nt))),
                     ("apply(sub-list)", lambda: eso.apply(list(sub_list), rho), sub_idx),
                     ("apply(sub-list)", lambda: eso.apply([times[i] for i in range(1, Nt, 2)], rho),
                      list(range(1, Nt, 2))),
                     ("apply(sub-list)", lambda: eso.apply([times[i] for i in range(2, Nt)], rho),
                      list(range(2, Nt))),
                     ("apply(sub-TimeAxis)",
                      lambda: eso.apply(qr.TimeAxis(times[1], len(range(1, Nt, 2)), 2 * ta.step),
                                        rho), list(range(1, Nt, 2))),
                     ("apply(tuple)", lambda: eso.apply(tuple(times), rho), list(range(Nt))),
                     ("apply(equal-TimeAxis)",
                      lambda: eso.apply(qr.TimeAxis(ta.start, Nt, ta.step), rho), list(range(Nt))),
                     ("apply(sub-TimeAxis)",
                      lambda: eso.apply(qr.TimeAxis(ta.start, len(sub_idx), 2 * ta.step), rho),
                      sub_idx)]
            for form, f, idx in forms:
                if len(idx) < 2:
                    continue
                ev = guarded(form, f)
                if ev is None:
                    continue
                dat = numpy.asarray(ev.data)
                if dat.shape != (len(idx), d, d):
                    V.add("apply/%s/shape" % form, "%s: %s returns shape %r" % (tag, form, dat.shape),
                          None)
                    continue
                for k, i in enumerate(idx):
                    classify(form, i, dat[k], n, m)
            if not numpy.array_equal(rho.data, before):
                V.add("apply/argument-modified", "%s: apply changed its argument" % tag, None)


def _check_propagation(V, sysd, ta, nd, grids, U, props, fine, tag):
    """U(t_i) applied to ALL matrix units vs direct propagation of that unit."""
    Nt = ta.length
    form = sysd["form"]
    g = grids[nd]
    for nref, P in props.items():
        for i in range(Nt):
            e = _dev(U[i], P[i])          # U[i][:,:,n,m] is exactly U[i] applied to E_nm
            if nref == nd:
                tol = RTOL * g.growth[i] ** 2
                V.see("propagate-same-dense", e, tol)
                if not e <= tol:
                    V.add("propagate/same-dense/Nref/%s" % form,
                          "%s: U(t_%d):E_nm differs from propagate(E_nm, Nref=%d) by %g "
                          "(same polynomial, tolerance %g)" % (tag, i, nref, e, tol),
                          {"i": i, "nd": nd, "err": e})
            elif g.bound is not None and grids[nref].bound is not None:
                tol = 2 * (g.bound[i] + grids[nref].bound[i]) + RTOL * g.growth[i] ** 2
                V.see("propagate-other-dense", e, tol)
                if not e <= tol:
                    V.add("propagate/other-dense/%s" % form,
                          "%s: U(t_%d):E_nm (dense %d) differs from propagate(E_nm, Nref=%d) by "
                          "%g, truncation bound %g" % (tag, i, nd, nref, e, tol),
                          {"i": i, "nd": nd, "nref": nref, "err": e, "tol": tol})
    if fine is not None:
        for i in range(Nt):
            e = _dev(U[i], fine[i * nd])
            tol = RTOL * g.growth[i] ** 2
            V.see("propagate-same-dense", e, tol)
            if not e <= tol:
                V.add("propagate/same-dense/fine-axis/%s" % form,
                      "%s: U(t_%d):E_nm differs from propagation on the %d-times finer axis by %g"
                      % (tag, i, nd, e), {"i": i, "nd": nd, "err": e})


def _check_jit(V, sysd, ta, nd, g, U, tag):
    """uniform histories calculate_next(save)^k, every prefix k<=Nt-1 a state"""
    d, Nt = sysd["dim"], ta.length
    one = SG.identity_tensor(d)
    nstates = 0
    for save in (False, True):
        sv = "save=%s" % ("T" if save else "F")
        e = _eso(sysd, ta, nd, "jit")
        cur = _current(e)
        if e.now != 0 or cur is None or not numpy.array_equal(cur, one):
            V.add("identity/jit", "%s: fresh jit object is not the identity at step 0" % tag, None)
        for k in range(1, Nt):
            e.calculate_next(save=save)
            nstates += 1
            if e.now != k:
                V.add("jit/%s/now-counter" % sv, "%s: now=%r after %d steps" % (tag, e.now, k), None)
                break
            dat = numpy.asarray(e.data)
            want_shape = (Nt, d, d, d, d) if save else (d, d, d, d)
            if dat.shape != want_shape:
                V.add("jit/%s/data-shape" % sv, "%s: data shape %r after %d steps, expected %r"
                      % (tag, dat.shape, k, want_shape), None)
                break
            cur = dat[k] if save else dat
            which = "first-step" if k == 1 else "later-step"
            if U is not None:
                tol = RTOL * g.growth[k] ** 2
                err = _dev(cur, U[k])
                V.see("jit-equals-all", err, tol)
                if not err <= tol:
                    V.add("jit/%s/%s-differs-from-all" % (sv, which),
                          "%s: after %d x calculate_next(%s) the superoperator differs from index "
                          "%d of the all-at-once calculation by %g" % (tag, k, sv, k, err),
                          {"k": k, "nd": nd, "err": err})
                if save:
                    err = _dev(dat[:k + 1], U[:k + 1])
                    if not err <= tol:
                        V.add("jit/%s/saved-history-differs-from-all" % sv,
                              "%s: rows 0..%d saved by calculate_next(save=True) differ from the "
                              "all-at-once calculation by %g" % (tag, k, err), {"k": k, "nd": nd})
            # absolute oracles (also the only ones when mode 'all' is not available)
            if sysd["exact_scheme"]:
                tol = RTOL * g.growth[k] ** 2
                err = _dev(cur, g.poly_tensor(k))
                V.see("scheme-reference", err, tol)
                if not err <= tol:
                    V.add("scheme-reference/jit/%s" % sysd["form"],
                          "%s: jit %s after %d steps differs from T_4^(%d) of the reference "
                          "generator by %g" % (tag, sv, k, nd * k, err), {"k": k, "nd": nd})
            if g.bound is not None:
                tol = 2 * g.bound[k] + RTOL * g.growth[k] ** 2
                err = _dev(cur, g.exact_tensor(k))
                V.see("exponential", err, tol)
            if g.bound is not None and not err <= tol:
                V.add("exponential/jit/%s" % sysd["form"],
                      "%s: jit %s after %d steps differs from expm(L t) by %g (bound 2x%g)"
                      % (tag, sv, k, err, g.bound[k]), {"k": k, "nd": nd})
            s = max(1.0, _amax(cur))
            if not SG.trace_defect(cur) <= RTOL * s * d:
                V.add("trace/jit", "%s: jit %s step %d trace defect %g"
                      % (tag, sv, k, SG.trace_defect(cur)), None)
            if not SG.hermiticity_defect(cur) <= RTOL * s:
                V.add("hermiticity/jit", "%s: jit %s step %d Hermiticity defect %g"
                      % (tag, sv, k, SG.hermiticity_defect(cur)), None)
            if save and not numpy.array_equal(dat[0], one):
                V.add("identity/jit", "%s: row 0 of the saved history is not the identity" % tag,
                      None)
    return nstates


def _mixed_histories(V, sysd, ta, nd, g, tag, U=None):
    """every word over {F,T} of length <= Nt-1 that is not uniform, as a prefix tree; a word
    whose last call raises is 'refused' and not extended.  Replayed on fresh objects."""
    Nt = ta.length
    stats = {"refused": 0, "completed": 0, "completed_correct": 0}
    frontier = [()]
    for k in range(1, Nt):
        nxt = []
        for w in frontier:
            for s in (False, True):
                word = w + (s,)
                if len(set(word)) < 2:
                    nxt.append(word)         # uniform: handled by _check_jit, only extended
                    continue
                e = _eso(sysd, ta, nd, "jit")
                try:
                    for x in word:
                        e.calculate_next(save=x)
                except Exception:
                    # the uniform prefix of this word ran without error in _check_jit, so the
                    # exception comes from the call that switches the flag: a refusal
                    stats["refused"] += 1
                    continue
                stats["completed"] += 1
                cur = _current(e)
                if g.bound is not None:
                    ref = g.exact_tensor(k)
                    tol = 2 * g.bound[k] + RTOL * g.growth[k] ** 2
                elif sysd["exact_scheme"]:       # no closed form: the scheme itself
                    ref = g.poly_tensor(k)
                    tol = RTOL * g.growth[k] ** 2
                elif U is not None:              # ... or the all-at-once calculation
                    ref = U[k]
                    tol = RTOL * g.growth[k] ** 2
                else:
                    stats["completed"] -= 1
                    stats["no_reference"] = stats.get("no_reference", 0) + 1
                    nxt.append(word)
                    continue
                err = _dev(cur, ref) if cur is not None else float("inf")
                if e.now != k or not err <= tol:
                    V.add("jit/mixed-save/accepted-but-wrong",
                          "%s: calculate_next history save=%s is accepted silently but the present "
                          "superoperator differs from the reference U(t_%d) by %g (now=%r)"
                          % (tag, "".join("T" if x else "F" for x in word), k, err, e.now),
                          {"word": [bool(x) for x in word], "nd": nd, "err": err})
                    continue                 # state is corrupt: do not extend
                stats["completed_correct"] += 1
                nxt.append(word)
        frontier = nxt
    return stats



# ------------------------------------------------------- observation inside a basis context
CTX_KINDS = ["H", "X"]


def _ctx_operator(kind, sysd):
    """operator whose eigenbasis is the observation basis: the Hamiltonian itself, or a fixed
    non-degenerate COMPLEX Hermitian operator X (complex unitary eigenvectors for every system)"""
    if kind == "H":
        return sysd["ham"]
    if kind == "X":
        from quantarhei.qm.hilbertspace.operators import SelfAdjointOperator
        d = sysd["dim"]
        X = numpy.zeros((d, d), dtype=complex)
        for a in range(d):
            X[a, a] = 1.0 + 0.5 * a
            for b in range(a + 1, d):
                X[a, b] = (0.4 / (a + b)) * numpy.exp(1j * (0.7 * (b - a) + 0.3 * a))
                X[b, a] = numpy.conj(X[a, b])
        return SelfAdjointOperator(data=X)
    raise isolation.HarnessError(kind)


def _check_context(V, sysd, ta, nd, g, U, P, kind, tag):
    """The superoperator is calculated OUTSIDE any basis context (as the library requires) and
    OBSERVED inside `with eigenbasis_of(op)`.  Every clause here is independent of which
    orthonormal eigenbasis the library picks (phases, degenerate subspaces): no transformation
    matrix enters the oracle.  Returns the number of extra evaluations."""
    qr = isolation.qr()
    d, Nt = sysd["dim"], ta.length
    form = sysd["form"]
    K = "context/eigenbasis_of(%s)" % kind
    one = SG.identity_tensor(d)
    times = [float(t) for t in ta.data]
    n_eval = 0

    eso = _eso(sysd, ta, nd, "all")
    eso.calculate()
    if not _dev(numpy.array(eso.data), U) <= RTOL * max(1.0, _amax(U)):
        raise isolation.HarnessError("second calculate() of the same setting differs")
    op = _ctx_operator(kind, sysd)

    # ---- the stored tensors seen from inside
    ats = []
    with qr.eigenbasis_of(op):
        Ui = numpy.array(eso.data, copy=True)
        for i in range(Nt):
            ats.append(eso.at(times[i]))
        at_in = [numpy.array(a.data, copy=True) for a in ats]
    Uback = numpy.array(eso.data, copy=True)
    if Ui.shape != U.shape:
        V.add("%s/data-shape" % K, "%s: data shape %r inside the context" % (tag, Ui.shape), None)
        return n_eval
    e = _dev(Ui[0], one)
    V.see("context-identity", e, RTOL * d)
    if not e <= RTOL * d:
        V.add("%s/identity" % K, "%s: inside the context U(t_0) differs from the identity "
              "superoperator by %g" % (tag, e), {"nd": nd, "err": e})
    for i in range(Nt):
        sc = max(1.0, _amax(Ui[i]))
        e1, e2 = SG.trace_defect(Ui[i]), SG.hermiticity_defect(Ui[i])
        V.see("context-trace", e1, RTOL * sc * d)
        V.see("context-hermiticity", e2, RTOL * sc * d)
        if not e1 <= RTOL * sc * d:
            V.add("%s/trace" % K, "%s: inside the context sum_a U[a,a,c,d](t_%d) differs from "
                  "delta_cd by %g" % (tag, i, e1), {"i": i, "nd": nd, "err": e1})
        if not e2 <= RTOL * sc * d:
            V.add("%s/hermiticity" % K, "%s: inside the context conj(U[a,b,c,d]) != U[b,a,d,c] "
                  "at t_%d, dev %g" % (tag, i, e2), {"i": i, "nd": nd, "err": e2})
        # the trace of the (d^2 x d^2) matrix is the same in every basis
        e3 = abs(numpy.trace(SG.as_matrix(Ui[i])) - numpy.trace(SG.as_matrix(U[i])))
        V.see("context-invariant", e3, RTOL * sc * d * d)
        if not e3 <= RTOL * sc * d * d:
            V.add("%s/basis-invariant-differs-from-outside" % K,
                  "%s: sum_ab U[a,b,a,b](t_%d) inside the context differs from the value outside "
                  "by %g" % (tag, i, e3), {"i": i, "nd": nd, "err": float(e3)})
        # at(t) made inside: the same tensor inside, the outside tensor after leaving
        e4 = _dev(at_in[i], Ui[i])
        if not e4 <= RTOL * sc:
            V.add("%s/at(t)-differs-from-data" % K, "%s: at(t_%d).data differs from data[%d] "
                  "inside the context by %g" % (tag, i, i, e4), {"i": i, "nd": nd})
        e5 = _dev(numpy.array(ats[i].data), U[i])
        V.see("context-roundtrip", e5, RTOL * sc * d)
        if not e5 <= RTOL * sc * d:
            V.add("%s/at(t)-after-exit-differs-from-outside" % K,
                  "%s: the SuperOperator at(t_%d) made inside the context differs, after the "
                  "context is left, from data[%d] outside by %g" % (tag, i, i, e5),
                  {"i": i, "nd": nd, "err": e5})
    if getattr(g, "time_independent", True):
        for i in range(Nt):
            for j in range(i, Nt - i):
                tol = RTOL * d * d * max(1.0, _amax(Ui[i])) * max(1.0, _amax(Ui[j]))
                e = max(_dev(Ui[i + j], SG.compose(Ui[i], Ui[j])),
                        _dev(Ui[i + j], SG.compose(Ui[j], Ui[i])))
                V.see("context-semigroup", e, tol)
                if not e <= tol:
                    V.add("%s/semigroup" % K, "%s: inside the context U(t_%d+t_%d) != "
                          "U(t_%d)U(t_%d), dev %g (tol %g)" % (tag, i, j, i, j, e, tol),
                          {"i": i, "j": j, "nd": nd, "err": e})
    e = _dev(Uback, U)
    V.see("context-roundtrip", e, RTOL * d * max(1.0, _amax(U)))
    if not e <= RTOL * d * max(1.0, _amax(U)):
        V.add("%s/data-after-exit-differs" % K, "%s: after the context is left the data differ "
              "from the data before it was entered by %g" % (tag, e), {"nd": nd, "err": e})

    # ---- U(t_i) applied INSIDE the context vs direct propagation (made outside)
    def compare(formname, i, got, want, n, m, where):
        tol = RTOL * g.growth[i] ** 2 * d
        e = _dev(got, want)
        V.see("context-apply", e, tol)
        if not e <= tol:
            V.add("%s/%s/differs-from-direct-propagation/%s" % (K, formname, form),
                  "%s: %s of %s inside the context, read after leaving it, differs from direct "
                  "propagation of that state at t_%d by %g (tol %g)"
                  % (tag, formname, where, i, e, tol), {"i": i, "n": n, "m": m, "nd": nd})

    def guarded(formname, f):
        try:
            return f()
        except Exception as ex:
            V.add("%s/%s/raises-%s" % (K, formname, type(ex).__name__),
                  "%s: %s inside the context raises %s: %s"
                  % (tag, formname, type(ex).__name__, str(ex)[:120]), None)
            return None

    kw = {}
    if sysd["relt"] is not None:
        kw["RTensor"] = sysd["relt"]
    if sysd["pdeph"] is not None:
        kw["PDeph"] = sysd["pdeph"]
    for n in range(d):
        for m in range(d):
            # (1) the state is the SITE-basis matrix unit, made outside
            rho = _unit_rho(d, n, m)
            single, inplace, viaat = [], [], []
            with qr.eigenbasis_of(op):
                for i in range(Nt):
                    single.append(guarded("apply(float)", lambda: eso.apply(times[i], rho)))
                    r2 = _unit_rho(d, n, m)      # made inside: E_nm of the CURRENT basis
                    inplace.append((r2, guarded("apply(float,copy=False)",
                                                lambda: eso.apply(times[i], r2, copy=False))))
                    so = guarded("at(t)", lambda: eso.at(times[i]))
                    viaat.append(None if so is None else
                                 guarded("at(t).apply", lambda: so.apply(rho)))
                many = guarded("apply('all')", lambda: eso.apply("all", rho))
                lst = guarded("apply(list)", lambda: eso.apply(list(times), rho))
                many_in = None if many is None else numpy.array(many.data, copy=True)
                lst_in = None if lst is None else numpy.array(lst.data, copy=True)
                rho_in = numpy.array(rho.data, copy=True)
                single_in = [None if r is None else numpy.array(r.data, copy=True)
                             for r in single]
            n_eval += 5
            if _dev(numpy.array(rho.data), SG.matrix_unit(d, n, m)) > RTOL:
                V.add("%s/apply/argument-modified" % K, "%s: apply inside the context changed "
                      "its argument" % tag, None)
            for i in range(Nt):
                want = P[i][:, :, n, m]
                if single[i] is not None:
                    compare("apply(float)", i, single[i].data, want, n, m, "site unit E_%d%d" % (n, m))
                if viaat[i] is not None:
                    compare("at(t).apply", i, viaat[i].data, want, n, m, "site unit E_%d%d" % (n, m))
            # the many-times forms return an evolution object; it is compared INSIDE the
            # context with the single-time results of the same state (both in the context's
            # basis) - what the object shows after the context is left is a property of the
            # evolution container, not of the superoperator
            for nm_, dat in (("apply('all')", many_in), ("apply(list)", lst_in)):
                if dat is None:
                    continue
                if dat.shape != (Nt, d, d):
                    V.add("%s/%s/shape" % (K, nm_), "%s: %s returns shape %r"
                          % (tag, nm_, dat.shape), None)
                    continue
                for i in range(Nt):
                    if single_in[i] is None:
                        continue
                    e = _dev(dat[i], single_in[i])
                    if not e <= RTOL * max(1.0, _amax(single_in[i])):
                        V.add("%s/%s/differs-from-apply(float)" % (K, nm_),
                              "%s: %s inside the context differs from apply(t_%d, rho) there by "
                              "%g" % (tag, nm_, i, e), {"i": i, "n": n, "m": m, "nd": nd})
            # (2) the state is the matrix unit of the CONTEXT's basis (made inside, changed in
            # place); after the context is left it is an ordinary (complex) matrix whose direct
            # propagation is calculated from its value outside
            # the same unit once more, only to learn what it is in the site basis
            with qr.eigenbasis_of(op):
                probe = _unit_rho(d, n, m)
            M0 = numpy.array(probe.data, copy=True)
            prop = qr.qm.ReducedDensityMatrixPropagator(ta, sysd["ham"], **kw)
            if nd != 1:
                prop.setDtRefinement(nd)
            rho0 = qr.ReducedDensityMatrix(dim=d)      # any matrix, not only Hermitian ones
            rho0.data[:, :] = M0
            direct = numpy.array(prop.propagate(rho0).data)
            n_eval += 1
            for i in range(Nt):
                r2, r3 = inplace[i]
                if r3 is None:
                    continue
                compare("apply(float,copy=False)", i, r3.data, direct[i], n, m,
                        "context-basis unit E'_%d%d" % (n, m))
    return n_eval


def _check_context_jit(V, sysd, ta, nd, g, U, kind, tag):
    """history  (calculate_next ; look at the data inside the context)^k  on one jit object:
    what is seen inside after k steps is what the all-at-once object shows inside"""
    qr = isolation.qr()
    d, Nt = sysd["dim"], ta.length
    K = "context/eigenbasis_of(%s)" % kind
    op = _ctx_operator(kind, sysd)
    ref = _eso(sysd, ta, nd, "all")
    ref.calculate()
    with qr.eigenbasis_of(op):
        Ui = numpy.array(ref.data, copy=True)
    n_eval = 0
    for save in (False, True):
        sv = "save=%s" % ("T" if save else "F")
        e = _eso(sysd, ta, nd, "jit")
        for k in range(1, Nt):
            e.calculate_next(save=save)
            n_eval += 1
            with qr.eigenbasis_of(op):
                dat = numpy.array(e.data, copy=True)
            cur = dat[k] if save else dat
            tol = RTOL * g.growth[k] ** 2 * d
            err = _dev(cur, Ui[k])
            V.see("context-jit", err, tol)
            if not err <= tol:
                V.add("%s/jit/%s/differs-from-all" % (K, sv),
                      "%s: after %d x calculate_next(%s) the superoperator seen inside the "
                      "context differs from index %d of the all-at-once object seen there by %g"
                      % (tag, k, sv, k, err), {"k": k, "nd": nd, "err": err})
                break
            if save:
                err = _dev(dat[:k + 1], Ui[:k + 1])
                if not err <= tol:
                    V.add("%s/jit/%s/saved-history-differs-from-all" % (K, sv),
                          "%s: rows 0..%d seen inside the context differ by %g" % (tag, k, err),
                          {"k": k, "nd": nd})
                    break
        if U is not None:
            cur = numpy.array(e.data)
            cur = cur[Nt - 1] if save else cur
            err = _dev(cur, U[Nt - 1])
            if not err <= RTOL * g.growth[Nt - 1] ** 2 * d:
                V.add("%s/jit/%s/after-exits-differs-from-all" % (K, sv),
                      "%s: after %d steps, each followed by a look inside the context, the "
                      "superoperator differs outside from the all-at-once one by %g"
                      % (tag, Nt - 1, err), {"nd": nd})
    return n_eval


def _eval_context(case):
    qr = isolation.qr()
    V = Viol()
    sysd = build(case)
    d = sysd["dim"]
    Nt, step, kind = case["Nt"], case["step"], case["ctx"]
    ta = qr.TimeAxis(0.0, Nt, step)
    tag = "%s/%s%s Nt=%d step=%g ctx=eigenbasis_of(%s)" % (
        case["sys"], case["gen"], "+pdeph:%s" % case["pdeph"] if case.get("pdeph") else "",
        Nt, step, kind)
    info = {"unsupported": {}, "mixed": {"refused": 0, "completed": 0, "completed_correct": 0}}
    nextra = 0
    last = None
    for nd in case["dense"]:
        g = _grid(sysd, step, nd, Nt)
        eso, U = _calc_all(sysd, ta, nd)
        if eso is None:
            info["unsupported"][U] = info["unsupported"].get(U, 0) + 1
            continue
        P = _propagate_units(sysd, ta, nd)
        nextra += d * d + 1
        t2 = "%s dense=%d" % (tag, nd)
        # outside (precondition of the comparison inside; the clause itself belongs to the
        # main product and has its key there)
        for i in range(Nt):
            e = _dev(U[i], P[i])
            if not e <= RTOL * g.growth[i] ** 2:
                V.add("propagate/same-dense/Nref/%s" % sysd["form"],
                      "%s: U(t_%d):E_nm differs from propagate(E_nm, Nref=%d) by %g"
                      % (t2, i, nd, e), {"i": i, "nd": nd, "err": e})
        nextra += _check_context(V, sysd, ta, nd, g, U, P, kind, t2)
        nextra += _check_context_jit(V, sysd, ta, nd, g, U, kind, t2)
        last = U
    # is the observation basis different from the basis of the calculation at all?
    Sdat = numpy.array(_ctx_operator(kind, sysd).data)
    rotated = bool(numpy.any(Sdat - numpy.diag(numpy.diag(Sdat))))
    info["worst"], info["tight"] = V.worst, 0
    tr = 0.0 if last is None else complex(numpy.trace(SG.as_matrix(last[-1])))
    digest = [case["sys"], case["gen"], case.get("pdeph"), Nt, step, "ctx", kind,
              round(float(numpy.real(tr)), 6), round(float(numpy.imag(tr)), 6),
              sorted(info["unsupported"]), len(V.items)]
    return {"nontrivial": rotated and last is not None, "outcome": digest,
            "violations": V.items, "n": nextra, "info": info}


# ------------------------------------------- histories of refinement requests on ONE propagator
def _letters(ns):
    """alphabet of requests: S(N) = setDtRefinement(N), P() = propagate(rho),
    P(N) = propagate(rho, Nref=N) for N > 1 (Nref=1 is the default value of the argument and
    means 'no request')"""
    return ([["S", n] for n in ns] + [["P", None]] + [["P", n] for n in ns if n > 1])


def _words(ns, maxlen):
    """all words of length <= maxlen that END with a propagation, simplest first"""
    L = _letters(ns)
    out, frontier = [], [[]]
    for _ in range(maxlen):
        frontier = [w + [l] for w in frontier for l in L]
        out += [w for w in frontier if w[-1][0] == "P"]
    return out


def _shape(word):
    def one(l):
        if l[0] == "S":
            return "set(%s)" % ("1" if l[1] == 1 else "N")
        return "propagate()" if l[1] is None else "propagate(Nref=N)"
    return ".".join(one(l) for l in word)


def _wordstr(word):
    return ".".join("setDtRefinement(%d)" % l[1] if l[0] == "S" else
                    ("propagate(rho)" if l[1] is None else "propagate(rho,Nref=%d)" % l[1])
                    for l in word)


def _eval_histories(case):
    qr = isolation.qr()
    V = Viol()
    sysd = build(case)
    d = sysd["dim"]
    Nt, step = case["Nt"], case["step"]
    ns, maxlen = list(case["refinements"]), case["maxlen"]
    ta = qr.TimeAxis(0.0, Nt, step)
    tag = "%s/%s%s Nt=%d step=%g" % (case["sys"], case["gen"],
                                     "+pdeph:%s" % case["pdeph"] if case.get("pdeph") else "",
                                     Nt, step)
    form = sysd["form"]
    info = {"unsupported": {}, "mixed": {"refused": 0, "completed": 0, "completed_correct": 0}}
    nextra = 0
    grids = {n: _grid(sysd, step, n, Nt) for n in ns}
    Uby, fresh = {}, {}
    for n in ns:
        eso, U = _calc_all(sysd, ta, n)
        if eso is None:                   # all-at-once not available: the saved jit history
            e = _eso(sysd, ta, n, "jit")
            for _ in range(1, Nt):
                e.calculate_next(save=True)
            U = numpy.array(e.data, copy=True)
        Uby[n] = U
        fresh[n] = _propagate_units(sysd, ta, n)      # fresh propagator, one request
        nextra += 1 + d * d
    kw = {}
    if sysd["relt"] is not None:
        kw["RTensor"] = sysd["relt"]
    if sysd["pdeph"] is not None:
        kw["PDeph"] = sysd["pdeph"]
    nwords = 0
    for word in _words(ns, maxlen):
        eff = SG.effective_refinement(word)
        g = grids[eff]
        nwords += 1
        for n in range(d):
            for m in range(d):
                # a fresh propagator per (word, state): every propagation of the word is
                # done with the state E_nm, the LAST one is the observation
                prop = qr.qm.ReducedDensityMatrixPropagator(ta, sysd["ham"], **kw)
                ev = None
                for op, N in word:
                    if op == "S":
                        prop.setDtRefinement(N)
                    elif N is None:
                        ev = prop.propagate(_unit_rho(d, n, m))
                        nextra += 1
                    else:
                        ev = prop.propagate(_unit_rho(d, n, m), Nref=N)
                        nextra += 1
                got = numpy.array(ev.data)
                for ref, name, what in (
                        (Uby[eff][:, :, :, n, m], "superoperator",
                         "U(t_i):E_nm of the superoperator with dense step %d" % eff),
                        (fresh[eff][:, :, :, n, m], "fresh-propagator",
                         "a fresh propagator with setDtRefinement(%d)" % eff)):
                    key = "propagate/refinement-history/%s/differs-from-%s/%s" % (
                        _shape(word), name, form)
                    if any(k.startswith("propagate/refinement-history/") and
                           k.endswith("/differs-from-%s/%s" % (name, form)) for k in V.keys):
                        continue          # the smallest witness is already reported
                    for i in range(Nt):
                        tol = RTOL * g.growth[i] ** 2
                        e = _dev(got[i], ref[i])
                        V.see("refinement-history", e, tol)
                        if not e <= tol:
                            V.add(key, "%s: after the requests %s on ONE propagator (requested "
                                  "refinement now %d) the propagated E_%d%d differs at t_%d "
                                  "from %s by %g (tol %g)"
                                  % (tag, _wordstr(word), eff, n, m, i, what, e, tol),
                                  {"word": word, "effective": eff, "i": i, "n": n, "m": m,
                                   "err": e})
                            break
    info["worst"], info["tight"] = V.worst, 0
    info["refinement_words"] = nwords
    U = Uby[ns[-1]]
    digest = [case["sys"], case["gen"], case.get("pdeph"), Nt, step, "hist", nwords,
              round(float(numpy.sum(numpy.abs(U[-1]))), 6), len(V.items)]
    # non-trivial: different refinements give different states at all
    differ = _dev(fresh[ns[0]], fresh[ns[-1]]) > 1e-8
    return {"nontrivial": bool(differ), "outcome": digest, "violations": V.items,
            "n": nextra, "info": info}


# ---------------------------------------------------------------------------------- the case
def eval_case(case):
    if case.get("ctx"):
        return _eval_context(case)
    if case.get("hist"):
        return _eval_histories(case)
    qr = isolation.qr()
    V = Viol()
    sysd = build(case)
    d = sysd["dim"]
    Nt, step = case["Nt"], case["step"]
    ta = qr.TimeAxis(0.0, Nt, step)
    tag = "%s/%s%s Nt=%d step=%g" % (case["sys"], case["gen"],
                                     "+pdeph:%s" % case["pdeph"] if case.get("pdeph") else "",
                                     Nt, step)
    dense = list(case.get("dense", DENSE))
    nds = sorted(set(dense + [2 * n for n in dense]))
    info = {"unsupported": {}, "mixed": {"refused": 0, "completed": 0, "completed_correct": 0}}
    nextra = 0

    if sysd["pdeph"] is not None and sysd["relt"] is None:
        # dephasing without a relaxation tensor: on the pinned tree EVERY entry point (direct
        # propagation, calculate(), calculate_next()) fails in the propagator with exactly this
        # AttributeError, so no clause has a left or a right hand side.  Only this exception,
        # raised by all three entry points, counts as "configuration not supported"; anything
        # else falls through to the clauses (and a crash there is reported by the engine).
        msgs = []
        for f in (lambda: _propagate_units(sysd, qr.TimeAxis(0.0, 2, step), 1),
                  lambda: _eso(sysd, ta, 1, "all").calculate(),
                  lambda: _eso(sysd, ta, 1, "jit").calculate_next()):
            try:
                f()
                msgs.append(None)
            except AttributeError as ex:
                msgs.append(str(ex))
        miss = "'ReducedDensityMatrixPropagator' object has no attribute 'RelaxationTensor'"
        if all(m == miss for m in msgs):
            k = "pure-dephasing-without-relaxation-tensor-raises-AttributeError"
            info["unsupported"][k] = 1
            info["worst"], info["tight"] = {}, 0
            return {"nontrivial": False, "violations": [], "n": 3, "info": info,
                    "outcome": [case["sys"], case["gen"], case["pdeph"], Nt, step, k]}
        if any(m is not None for m in msgs):
            V.add("pdeph/without-relaxation-tensor/entry-points-disagree",
                  "%s: propagate / calculate() / calculate_next() raise %r" % (tag, msgs), None)
            info["worst"], info["tight"] = V.worst, 0
            return {"nontrivial": True, "violations": V.items, "n": 3, "info": info,
                    "outcome": [case["sys"], case["gen"], case["pdeph"], Nt, step, repr(msgs)]}

    grids = {nd: _grid(sysd, step, nd, Nt) for nd in nds}
    if grids[dense[0]].bound is None:
        # no truncation bound in this sub-family: the doubled settings would serve only the
        # refinement clause, which is not evaluated here
        nds = sorted(set(dense))

    # the generator itself must be of the kind the property speaks about
    gt = SG.generator_trace_defect(sysd["Lmat"])
    gh = SG.generator_hermiticity_defect(sysd["Lmat"])
    lscale = max(1e-300, _amax(sysd["Lmat"]))
    generator_ok = gt <= 1e-9 * lscale and gh <= 1e-9 * lscale

    # direct propagation of all matrix units, once per refinement
    props = {nref: _propagate_units(sysd, ta, nref) for nref in dense}
    nextra += len(dense) * d * d

    Ucache = {}
    for nd in nds:
        eso, U = _calc_all(sysd, ta, nd)
        if eso is None:
            info["unsupported"][U] = info["unsupported"].get(U, 0) + 1
            Ucache[nd] = None
            continue
        Ucache[nd] = U
        if nd not in dense:
            continue
        t2 = "%s dense=%d" % (tag, nd)
        _check_all_mode(V, sysd, ta, nd, grids[nd], U, t2)
        fine = None
        if nd > 1 and nd * (Nt - 1) <= case.get("fine_max", 400):
            fta = qr.TimeAxis(0.0, nd * (Nt - 1) + 1, step / nd)
            fine = _propagate_units(sysd, fta, 1)
            nextra += d * d
        _check_propagation(V, sysd, ta, nd, grids, U, props, fine, t2)
        if nd == dense[min(1, len(dense) - 1)]:
            _check_apply(V, sysd, ta, eso, U, t2)
            if sysd["pdeph"] is not None:
                # the other documented way of giving the dephasing to the object
                e2 = qr.qm.EvolutionSuperOperator(time=ta, ham=sysd["ham"], relt=sysd["relt"],
                                                  mode="all")
                e2.set_dense_dt(nd)
                e2.set_PureDephasing(sysd["pdeph"])
                e2.calculate()
                nextra += 1
                if not (e2.has_PureDephasing() and numpy.array_equal(numpy.array(e2.data), U)):
                    V.add("pdeph/set_PureDephasing-differs-from-constructor",
                          "%s: dephasing set with set_PureDephasing() gives a superoperator "
                          "that differs from the one with pdeph= in the constructor by %g"
                          % (t2, _dev(numpy.array(e2.data), U)), {"nd": nd})
    # history on ONE object: calculate(), change the dense step, calculate() again - the second
    # result must be the one a fresh object gives for the new setting (rounding level)
    seq = [nd for nd in dense if Ucache.get(nd) is not None]
    if len(seq) >= 2:
        for order in (seq, seq[::-1]):
            e1 = _eso(sysd, ta, order[0], "all")
            try:
                e1.calculate()
                for nd2 in order[1:]:
                    e1.set_dense_dt(nd2)
                    e1.calculate()
                    dev = _dev(numpy.array(e1.data), Ucache[nd2])
                    tol = RTOL * max(1.0, _amax(Ucache[nd2]))
                    V.see("recalculate-after-set_dense_dt", dev, tol)
                    if not dev <= tol:
                        V.add("recalculate/after-set_dense_dt/differs-from-fresh-object",
                              "%s: calculate() after set_dense_dt(%d) on an object that was "
                              "calculated with dense settings %r before differs from a fresh "
                              "object by %g" % (tag, nd2, order[:order.index(nd2)], dev),
                              {"order": order, "nd": nd2, "err": dev})
                        break
            except Exception as ex:
                V.add("recalculate/after-set_dense_dt/raises-%s" % type(ex).__name__,
                      "%s: second calculate() raised %s" % (tag, str(ex)[:100]), None)
            nextra += len(order)
    # refinement doubling
    for nd in dense:
        U1, U2 = Ucache.get(nd), Ucache.get(2 * nd)
        if U1 is None or U2 is None:
            continue
        g1, g2 = grids[nd], grids[2 * nd]
        if g1.bound is None or g2.bound is None:
            continue                     # no truncation bound (non-commuting Gaussian dephasing)
        for i in range(Nt):
            tol = 2 * (g1.bound[i] + g2.bound[i]) + RTOL * g1.growth[i] ** 2
            e = _dev(U1[i], U2[i])
            V.see("refinement-doubling", e, tol)
            if not e <= tol:
                V.add("refinement/doubling-exceeds-truncation-bound",
                      "%s: dense %d -> %d changes U(t_%d) by %g, truncation bound %g"
                      % (tag, nd, 2 * nd, i, e, tol), {"i": i, "nd": nd, "err": e, "tol": tol})
    # incremental mode
    for nd in dense:
        nextra += _check_jit(V, sysd, ta, nd, grids[nd], Ucache.get(nd), "%s dense=%d" % (tag, nd))
    st = _mixed_histories(V, sysd, ta, dense[min(1, len(dense) - 1)],
                          grids[dense[min(1, len(dense) - 1)]], tag,
                          Ucache.get(dense[min(1, len(dense) - 1)]))
    info["mixed"] = st
    nextra += st["refused"] + st["completed"]

    # trace / Hermiticity clauses presuppose a trace- and Hermiticity-preserving generator;
    # that the library's relaxation tensors are of that kind is property C01, not C08: such a
    # case is excluded from the two clauses and counted, never reported as a C08 violation
    if not generator_ok:
        V.items = [v for v in V.items if not v[0].startswith(("trace/", "hermiticity/"))]
        k = "generator-not-trace-or-hermiticity-preserving(C01)-excluded-from-trace-clauses"
        info["unsupported"][k] = info["unsupported"].get(k, 0) + 1

    stiff = {nd: grids[nd].stiffness for nd in dense}
    tight = [nd for nd in dense if stiff[nd] <= 0.5]
    nontrivial = bool(sysd["coupled"] and tight)
    Ud = Ucache.get(dense[0])
    if Ud is None:
        Ud = numpy.array([grids[dense[0]].poly_tensor(i) for i in range(Nt)])
    digest = [case["sys"], case["gen"]] + ([case["pdeph"]] if case.get("pdeph") else []) + [Nt, step,
              round(float(numpy.sum(numpy.abs(Ud[-1]))), 6),
              round(float(numpy.real(Ud[-1][d - 1, d - 1, d - 1, d - 1])), 6),
              sorted(info["unsupported"]), len(V.items)]
    info["worst"] = V.worst
    info["tight"] = len(tight)
    return {"nontrivial": nontrivial, "outcome": digest, "violations": V.items, "n": nextra,
            "info": info}


def replay(case):
    return eval_case(case)["violations"]


# ---------------------------------------------------------------------------------- space
def cases(tier):
    if tier == "quick":
        hams = [h for h in HAMS if h.startswith(("d2", "d3")) and h != "d3-complex-degenerate"] \
            + ["d4-coupled"]
        aggs = ["dimer"]
        nts = [4, 6]
        steps = [5.0, 50.0, 0.7]
        fine_max = [60]
    else:
        hams = list(HAMS)
        aggs = list(AGGS)
        nts = [4, 6, 9]
        steps = [5.0, 10.0, 50.0, 0.7, 1.0 / 3.0]
        fine_max = [400]
    out = []
    out += product({"sys": hams, "gen": GENS_EXPLICIT, "step": steps, "Nt": nts,
                    "fine_max": fine_max})
    out += product({"sys": aggs, "gen": GENS_AGG, "step": steps, "Nt": nts,
                    "fine_max": fine_max})
    # ---- pure dephasing: a complete product of its own (same clauses)
    if tier == "quick":
        p_hams = ["d2-diag", "d2-coupled", "d3-diag", "d3-coupled"]
        p_gens = ["none", "lindblad-decay-ten", "lindblad-decay-op", "lindblad-mixed-ten",
                  "lindblad-mixed-op"]
        p_aggs, p_steps, p_nts = ["dimer"], [5.0, 0.7], [4]
        # Gaussian dephasing makes the library propagate EVERY interval with the dense step
        # (cost ~ sum of the dense settings): the largest quick setting is 20 instead of 50
        p_dense = [[1, 2, 5, 20]]
    else:
        # (complex Hamiltonians: one representative here, all of them in the other products)
        p_hams = [h for h in HAMS if h not in COMPLEX_HAMS] + ["d3-complex"]
        p_gens, p_aggs = list(GENS_EXPLICIT), list(AGGS)
        p_steps, p_nts = list(steps), [4, 6]
        p_dense = [list(DENSE)]
    out += product({"sys": p_hams, "gen": p_gens, "pdeph": PDEPH, "step": p_steps, "Nt": p_nts,
                    "fine_max": fine_max, "dense": p_dense})
    out += product({"sys": p_aggs, "gen": GENS_AGG, "pdeph": PDEPH, "step": p_steps,
                    "Nt": p_nts, "fine_max": fine_max, "dense": p_dense})
    # ---- observation context: the calculated object looked at / applied inside
    #      `with eigenbasis_of(op)`, op = the Hamiltonian or a fixed complex Hermitian operator
    if tier == "quick":
        c_hams = ["d2-coupled", "d2-complex", "d3-coupled", "d3-complex", "d3-complex-degenerate"]
        c_aggs, c_steps, c_nts, c_dense = ["dimer"], [5.0, 0.7], [4], [[1, 2, 5]]
        cp_hams, cp_gens = ["d2-complex", "d3-complex"], ["lindblad-mixed-ten", "lindblad-mixed-op"]
        cp_aggs, cp_pd, cp_steps = [], ["L-distinct", "G-distinct"], [5.0]
    else:
        c_hams, c_aggs, c_steps, c_nts = list(HAMS), list(AGGS), [5.0, 50.0, 0.7], [4, 6]
        c_dense = [[1, 2, 5, 50]]
        cp_hams, cp_gens = COMPLEX_HAMS + ["d3-coupled"], [g for g in GENS_EXPLICIT if g != "none"]
        cp_aggs, cp_pd, cp_steps = list(AGGS), ["L-distinct", "G-distinct"], [5.0]
    out += product({"sys": c_hams, "gen": GENS_EXPLICIT, "ctx": CTX_KINDS, "step": c_steps,
                    "Nt": c_nts, "dense": c_dense})
    out += product({"sys": c_aggs, "gen": GENS_AGG, "ctx": CTX_KINDS, "step": c_steps,
                    "Nt": c_nts, "dense": c_dense})
    out += product({"sys": cp_hams, "gen": cp_gens, "pdeph": cp_pd, "ctx": CTX_KINDS,
                    "step": cp_steps, "Nt": [4], "dense": [[1, 2, 5]]})
    out += product({"sys": cp_aggs, "gen": GENS_AGG, "pdeph": cp_pd, "ctx": CTX_KINDS,
                    "step": cp_steps, "Nt": [4], "dense": [[1, 2, 5]]})
    # ---- histories of refinement requests on ONE propagator object: all words of length
    #      <= maxlen over {setDtRefinement(N), propagate(rho), propagate(rho, Nref=N)}
    if tier == "quick":
        h_hams, h_gens = ["d2-coupled", "d3-complex"], ["none", "lindblad-mixed-ten",
                                                        "lindblad-mixed-op"]
        h_aggs, h_agens, h_steps, h_nts = ["dimer"], ["redfield-ten"], [5.0], [4]
        h_pd = [None, "G-distinct"]
    else:
        h_hams = ["d2-coupled", "d2-complex", "d3-coupled", "d3-degenerate", "d3-complex",
                  "d4-complex"]
        h_gens = list(GENS_EXPLICIT)
        h_aggs, h_agens, h_steps, h_nts = list(AGGS), list(GENS_AGG), [5.0, 0.7], [4]
        h_pd = [None, "L-distinct", "G-distinct"]
    supported = lambda c: not (c["pdeph"] and c["gen"] == "none")
    hist = product({"sys": h_hams, "gen": h_gens, "pdeph": h_pd, "hist": [True], "step": h_steps,
                    "Nt": h_nts, "refinements": [[1, 2, 5]], "maxlen": [3]}, supported)
    hist += product({"sys": h_aggs, "gen": h_agens, "pdeph": h_pd, "hist": [True],
                     "step": h_steps, "Nt": h_nts, "refinements": [[1, 2, 5]], "maxlen": [3]})
    for c in hist:
        if c["pdeph"] is None:
            del c["pdeph"]
    out += hist
    return out


def run(run):
    run.rule = ("full product system x generator x grid step x grid length, and a second full "
                "product system x relaxation (none/tensor/operator form) x pure dephasing "
                "(Lorentzian, Gaussian) x rate pattern (uniform, distinct) x grid step x grid "
                "length; inside each point: "
                "dense settings {1,2,5,50} (+ their doubles), modes all/jit, every uniform "
                "calculate_next history prefix k<=Nt-1 for save=F and save=T, the prefix tree of "
                "mixed-save words, all index pairs i+j<Nt, all grid times, all matrix units. "
                "non-trivial = generator couples states (off-diagonal H or relaxation) and at "
                "least one dense setting has ||L||*dense_step <= 0.5.  Systems include complex "
                "Hermitian Hamiltonians.  Third product (observation context): system x "
                "generator [x pure dephasing] x context operator (the Hamiltonian, a fixed complex "
                "Hermitian operator X) x step x Nt; the object is calculated outside and, for "
                "every dense setting, looked at and applied inside `with eigenbasis_of(op)`: "
                "identity, trace, Hermiticity, all index pairs of the semigroup law, at(t), all "
                "matrix units of the site basis AND of the context's basis through every "
                "calling form, compared with direct propagation; jit histories (step; look "
                "inside)^k.  non-trivial there = the context's basis differs from the site "
                "basis.  Fourth product (refinement histories): system x generator [x pure "
                "dephasing] x step x Nt x ALL words of length <= 3 over {setDtRefinement(N), "
                "propagate(rho), propagate(rho, Nref=N)}, N in {1,2,5}, that end with a "
                "propagation, each on a fresh propagator for every matrix unit; the last "
                "propagation is compared with the superoperator of the requested refinement and "
                "with a fresh propagator; non-trivial = refinements 1 and 5 give different states")
    run.assumptions = [
        "reference generator: -i[H,.] + R from Kronecker products (GKSL sum built from the "
        "operators and rates for Lindblad forms; the library's 4-index tensor and RWA "
        "Hamiltonian data are generator INPUT for Redfield)",
        "scheme reference T_4(L dt/Nd)^(Nd i): order 4 is the class's fixed choice (default "
        "'short-exp' of the propagator)",
        "truncation bound n*sup||T^k||*sup||E^k||*||T-E|| (2-norms), 2x allowed + 1e-10*growth^2",
        "Redfield operator form: reference generator taken from the tensor form of an identical "
        "aggregate, used for truncation-bounded clauses only",
        "mode 'all' without a relaxation tensor raises AttributeError in calculate(): counted as "
        "unsupported configuration, jit mode of the same system is checked against the reference",
        "mixed-save calculate_next words: an exception raised by the call that switches the flag counts as refusal; silent acceptance with a wrong present superoperator is a violation",
        "pure dephasing = element-wise factor applied after every elementary Taylor step "
        "(operator splitting, as the library declares); Lorentzian: exp(-g ddt), generator "
        "L-diag(g), bound from the computed one-step defect ||D T_4 - expm((L-diag(g))ddt)||; "
        "Gaussian: exp(-g ddt^2/2 - g ddt t_k), time-dependent generator: no semigroup clause, "
        "closed form exp(-g t^2/2) o expm(Lt) only where diag(g) commutes with L, otherwise no "
        "truncation-bounded clause is evaluated",
        "dephasing rates symmetric with zero diagonal (trace/Hermiticity preserving); dephasing "
        "applied in the basis the data are in (no basis context is open)",
        "pure dephasing without a relaxation tensor raises AttributeError (no attribute "
        "'RelaxationTensor') in propagate(), calculate() and calculate_next() alike: counted as "
        "unsupported configuration",
        "observation context: the superoperator is CALCULATED outside any basis context (the "
        "library's stated requirement) and only observed inside; the clauses checked inside "
        "(identity, trace, Hermiticity, semigroup, sum_ab U[a,b,a,b] equal to its value outside, "
        "apply == direct propagation made outside) hold in every orthonormal basis, so no "
        "transformation matrix, eigenvector phase or choice inside a degenerate subspace enters "
        "an oracle; results of apply() made inside are read after the context is left; the "
        "many-times forms of apply() are compared inside with the single-time form (what an "
        "evolution container shows after the context is left is not part of this property)",
        "refinement requests: the refinement counts from the step of the time axis, the LAST "
        "request decides (mc/refmodels/semigroup.effective_refinement); propagate(rho) and "
        "propagate(rho, Nref=1) are the same call (1 is the default of the argument) and are no "
        "request",
    ]
    cs = cases(run.tier)
    _pd = lambda c: c.get("pdeph") and not c.get("ctx") and not c.get("hist")
    _main = [c for c in cs if not c.get("ctx") and not c.get("hist")]
    run.bounds = {"Nt": sorted(set(c["Nt"] for c in cs)), "steps": sorted(set(c["step"] for c in cs)),
                  "dense": DENSE, "systems": sorted(set(c["sys"] for c in cs)),
                  "generators": GENS_EXPLICIT + GENS_AGG, "order": ORDER,
                  "pure_dephasing": [None] + PDEPH,
                  "observation_context_product": {
                      "context_operators": CTX_KINDS,
                      "cases": sum(1 for c in cs if c.get("ctx")),
                      "dense": sorted(set(n for c in cs if c.get("ctx") for n in c["dense"])),
                      "Nt": sorted(set(c["Nt"] for c in cs if c.get("ctx"))),
                      "steps": sorted(set(c["step"] for c in cs if c.get("ctx"))),
                      "systems": sorted(set(c["sys"] for c in cs if c.get("ctx"))),
                      "pure_dephasing": sorted(set(str(c.get("pdeph")) for c in cs
                                                   if c.get("ctx")))},
                  "refinement_history_product": {
                      "cases": sum(1 for c in cs if c.get("hist")),
                      "requests": ["setDtRefinement(N)", "propagate(rho)",
                                   "propagate(rho,Nref=N>1)"],
                      "N": [1, 2, 5], "max_word_length": 3, "words_ending_with_propagation": 129,
                      "Nt": sorted(set(c["Nt"] for c in cs if c.get("hist"))),
                      "steps": sorted(set(c["step"] for c in cs if c.get("hist"))),
                      "systems": sorted(set(c["sys"] for c in cs if c.get("hist"))),
                      "pure_dephasing": sorted(set(str(c.get("pdeph")) for c in cs
                                                   if c.get("hist")))},
                  "pure_dephasing_product": {
                      "dense": sorted(set(n for c in cs if _pd(c) for n in c["dense"])),
                      "Nt": sorted(set(c["Nt"] for c in cs if _pd(c))),
                      "steps": sorted(set(c["step"] for c in cs if _pd(c))),
                      "systems": sorted(set(c["sys"] for c in cs if _pd(c))),
                      "relaxation": sorted(set(c["gen"] for c in cs if _pd(c)))}}
    infos = run_grid(run, rotate(cs, run.seed), eval_case, cap_s=150 if run.tier == "quick" else 1500)
    worst, unsupported, tight, nwords = {}, {}, 0, 0
    mixed = {"refused": 0, "completed": 0, "completed_correct": 0}
    for inf in infos:
        for k, (a, r) in inf["worst"].items():
            w = worst.setdefault(k, [0.0, 0.0])
            w[0], w[1] = max(w[0], a), max(w[1], r)
        for k, n in inf["unsupported"].items():
            unsupported[k] = unsupported.get(k, 0) + n
        for k in mixed:
            mixed[k] += inf["mixed"][k]
        tight += inf["tight"]
        nwords += inf.get("refinement_words", 0)
    run.note(worst_deviation_per_clause={k: {"abs": float("%.3g" % v[0]),
                                             "relative_to_tolerance": float("%.3g" % v[1])}
                                         for k, v in sorted(worst.items())},
             unsupported_configurations=unsupported, mixed_save_words=mixed,
             dense_settings_in_nonstiff_regime=tight, refinement_request_words=nwords)
