"""C17 Population (master-equation) dynamics conserve and match the exponential.

H: BFS over all set_rate histories of a real RateMatrix (dim 3) with a dictionary model.
G: full product generator x time axis x every compatible sub-axis (start index, stride,
length) x all unit initial vectors, against scipy.linalg.expm.
"""
import numpy
import scipy.linalg

from mc import isolation
from mc.explore import run_grid, run_bfs, approx, product

LEVEL = "model_checking"
RTOL = 1e-10


# ------------------------------------------------------------------ H part
VALS = [0.0, 0.5, 2.0]
# rates on very different scales and corrections far below the value they correct: a slow rate
# (1/(200 ns) in 1/fs), a rate, and the same rate corrected by 1e-7 of its value
VALS_SCALES = [0.0, 5.0e-9, 0.5, 0.5 * (1.0 + 1.0e-7)]
DIM = 3


def _ops(vals=VALS):
    ops = []
    for i in range(DIM):
        for j in range(DIM):
            for v in vals:
                ops.append(["set", i, j, v])
    return ops


def execute(hist):
    from quantarhei.qm import RateMatrix
    init = execute.init
    if init == "zeros":
        rm = RateMatrix(dim=DIM)
        model = {}
        diag0 = numpy.zeros(DIM)
    else:
        K = numpy.array([[-0.3, 0.1, 0.0], [0.3, -0.6, 0.4], [0.0, 0.5, -0.4]])
        rm = RateMatrix(data=K.copy())
        model = {(i, j): K[i, j] for i in range(DIM) for j in range(DIM) if i != j}
        diag0 = numpy.array([K[:, j].sum() for j in range(DIM)])   # zero column sums here
    viol = []
    for n, op in enumerate(hist):
        _, i, j, v = op
        before = numpy.array(rm.data, copy=True)
        try:
            rm.set_rate((i, j), v)
            ok = True
        except Exception:
            ok = False
        if n != len(hist) - 1:
            if ok and i != j:
                model[(i, j)] = v
            continue
        if i == j:
            if ok:
                viol.append(("diagonal-assignment-accepted", "set_rate((%d,%d)) accepted" % (i, j),
                             None))
            elif not numpy.array_equal(before, rm.data):
                viol.append(("refused-assignment-changed-data", "refused set_rate changed data",
                             None))
            continue
        if not ok:
            viol.append(("admissible-assignment-refused", "set_rate((%d,%d),%g) raised" % (i, j, v),
                         None))
            continue
        model[(i, j)] = v
    D = numpy.array(rm.data, dtype=float)
    cs = D.sum(axis=0)
    if numpy.max(numpy.abs(cs - diag0)) > 1e-12:
        viol.append(("column-sums-not-zero", "column sums %s after %r" % (cs.tolist(), list(hist)),
                     None))
    for (i, j), v in model.items():
        if D[i, j] != v:
            viol.append(("off-diagonal-not-the-assigned-value",
                         "K[%d,%d]=%r but %r was assigned last" % (i, j, D[i, j], v), None))
            break
    for i in range(DIM):
        for j in range(DIM):
            if i != j and (i, j) not in model and D[i, j] != 0.0:
                viol.append(("untouched-element-changed", "K[%d,%d]=%r was never assigned"
                             % (i, j, D[i, j]), None))
    for j in range(DIM):
        exp = diag0[j] - sum(v for (a, b), v in model.items() if b == j)
        if abs(D[j, j] - exp) > 1e-12:
            viol.append(("diagonal-not-minus-column-sum", "K[%d,%d]=%r expected %r"
                         % (j, j, D[j, j], exp), None))
            break
    key = [init, D.tolist()]        # exact stored numbers (no rounding: scales differ by 1e8)
    return {"key": key, "enabled": execute.ops, "violations": viol[:3],
            "nontrivial": any(op[1] != op[2] and op[3] != 0 for op in hist),
            "outcome": D.tolist()}


execute.init = "zeros"
execute.ops = _ops()

# ------------------------------------------------------------------ G part
GENERATORS = {
    "two-state": [[-0.01, 0.02], [0.01, -0.02]],
    "three-cycle": [[-0.02, 0.0, 0.02], [0.02, -0.02, 0.0], [0.0, 0.02, -0.02]],
    "chain-equal-rates(defective)": [[-0.02, 0.0, 0.0], [0.02, -0.02, 0.0], [0.0, 0.02, 0.0]],
    "chain-distinct-rates": [[-0.03, 0.0, 0.0], [0.03, -0.01, 0.0], [0.0, 0.01, 0.0]],
    "disconnected": [[-0.02, 0.01, 0.0], [0.02, -0.01, 0.0], [0.0, 0.0, 0.0]],
    "full-3": [[-0.05, 0.01, 0.02], [0.02, -0.04, 0.03], [0.03, 0.03, -0.05]],
    "four-chain-equal(defective)": [[-0.01, 0, 0, 0], [0.01, -0.01, 0, 0], [0, 0.01, -0.01, 0],
                                    [0, 0, 0.01, 0]],
    # rates far below 1/dt (populations move by < 1e-5 per step) and a fast pair leaking slowly
    # into a trap: dynamics on very different time scales within one run
    "slow-3": [[-2.0e-6, 1.0e-6, 0.0], [2.0e-6, -4.0e-6, 1.0e-6], [0.0, 3.0e-6, -1.0e-6]],
    "fast-pair-slow-trap": [[-0.20, 0.20, 0.0], [0.20, -0.200003, 0.0], [0.0, 3.0e-6, 0.0]],
}


def taylor_bound(K, dt, L, nsteps):
    """n * sup||T^k|| * sup||E^k|| * ||T - E||  (2-norms), T = order-L Taylor polynomial."""
    A = numpy.array(K) * dt
    T = numpy.eye(A.shape[0])
    term = numpy.eye(A.shape[0])
    for l in range(1, L + 1):
        term = term @ A / l
        T = T + term
    E = scipy.linalg.expm(A)
    d = numpy.linalg.norm(T - E, 2)
    supT, supE = 1.0, 1.0
    Tk, Ek = numpy.eye(A.shape[0]), numpy.eye(A.shape[0])
    for k in range(nsteps):
        Tk, Ek = Tk @ T, Ek @ E
        supT = max(supT, numpy.linalg.norm(Tk, 2))
        supE = max(supE, numpy.linalg.norm(Ek, 2))
    return nsteps * supT * supE * d


def eval_case(case):
    qr = isolation.qr()
    from quantarhei.qm import RateMatrix
    from quantarhei.qm.propagators.poppropagator import PopulationPropagator
    viol = []
    K = numpy.array(GENERATORS[case["gen"]], dtype=float)
    n = K.shape[0]
    Nt, dt, t0 = case["Nt"], case["dt"], case["t0"]
    ta = qr.TimeAxis(t0, Nt, dt)
    gk = "defective" if "defective" in case["gen"] else "diagonalisable"
    if case["kind"] == "propagate":
        as_rm = case["as_rm"]
        prop = PopulationPropagator(ta, RateMatrix(data=K.copy()) if as_rm else K.copy())
        bound = 2 * taylor_bound(K, dt, 4, Nt - 1) + 1e-12
        worst = 0.0
        inits = [(numpy.eye(n)[k], "float-array") for k in range(n)]
        inits += [([1 if i == k else 0 for i in range(n)], "int-list") for k in range(n)]
        inits += [(numpy.array([1 if i == 0 else 0 for i in range(n)]), "int-array"),
                  (tuple(1.0 / n for i in range(n)), "float-tuple")]
        # the statement speaks of the SUM of the populations, not of normalised vectors
        inits += [(numpy.array([2.0, 1.0] + [0.0] * (n - 2)), "float-array-sum-3"),
                  ([0.25] + [0.0] * (n - 2) + [0.25], "float-list-sum-half"),
                  (numpy.array([3] + [0] * (n - 2) + [1]), "int-array-sum-4"),
                  (numpy.full(n, 1.0e-6), "float-array-sum-tiny")]
        bound1 = bound
        for k, (pin, pkind) in enumerate(inits):
            p0 = numpy.array(pin, dtype=float)
            s0 = float(p0.sum())
            bound = bound1 * max(1.0, float(numpy.linalg.norm(p0))) if s0 >= 1.0 \
                else bound1 * float(numpy.linalg.norm(p0)) + 1e-18
            arg = pin.copy() if isinstance(pin, numpy.ndarray) else type(pin)(pin)
            pops = numpy.asarray(prop.propagate(arg), dtype=float)
            if pops.shape != (Nt, n):
                viol.append(("propagate/shape", "shape %r" % (pops.shape,), None))
                break
            s = pops.sum(axis=1)
            if numpy.max(numpy.abs(s - s0)) > 1e-10 * s0:
                viol.append(("propagate/sum-not-conserved", "%s: p0=%s (%s) max |sum p(t) - sum "
                             "p(0)| = %g" % (case["gen"], p0.tolist(), pkind,
                                             numpy.max(numpy.abs(s - s0))), None))
            if pops.min() < -bound:
                viol.append(("propagate/negative-population", "%s: min p = %g, bound %g"
                             % (case["gen"], pops.min(), bound), None))
            ref = numpy.array([scipy.linalg.expm(K * (i * dt)) @ p0 for i in range(Nt)])
            err = float(numpy.max(numpy.abs(pops - ref)))
            worst = max(worst, err)
            if err > bound:
                viol.append(("propagate/differs-from-exponential/%s/%s" % (gk, pkind),
                             "%s Nt=%d dt=%g p0=%s (%s): error %g, truncation bound %g"
                             % (case["gen"], Nt, dt, p0.tolist(), pkind, err, bound),
                             {"err": err, "bound": bound}))
            if not numpy.array_equal(numpy.asarray(arg, dtype=float), p0):
                viol.append(("propagate/initial-vector-modified", "p0 changed", None))
        if not numpy.array_equal(numpy.asarray(prop.KK), K):
            viol.append(("propagate/rate-matrix-modified", "K changed by propagate", None))
        return {"nontrivial": True, "violations": _dedup(viol),
                "outcome": [case["gen"], Nt, dt, round(worst / max(bound, 1e-300), 3)],
                "n": len(inits) - 1}
    if case["kind"] == "useq":
        # a HISTORY of requests on ONE propagator object: every sub-axis of the list in turn,
        # interleaved with propagate(); each answer must be the exponential on its own axis
        rmat = RateMatrix(data=K.copy())
        prop = PopulationPropagator(ta, rmat)
        worst = 0.0
        corr = case.get("corr") or [-1]
        held = []        # results handed out earlier, kept by the caller without copying
        for idx, (s, m, L) in enumerate(case["subs"]):
            sub = qr.TimeAxis(t0 + s * dt, L, m * dt)
            if not sub.is_subset_of(ta):
                continue
            # the perturbative corrections are an additional output of the request (rarely used
            # option); asking for them must not change the propagator or the caller's matrix
            cr = corr[idx % len(corr)]
            U = prop.get_PropagationMatrix(sub, corrections=cr) if cr >= 0 \
                else prop.get_PropagationMatrix(sub)
            if isinstance(U, tuple):
                U = U[0]
            if not numpy.array_equal(numpy.asarray(rmat.data), K) or \
                    not numpy.array_equal(numpy.asarray(prop.KK), K):
                viol.append(("propagation-matrix/request-changed-the-rate-matrix/corrections=%d"
                             % cr, "%s: after request #%d (corrections=%d) the rate matrix of "
                             "the caller / of the propagator differs from the one supplied"
                             % (case["gen"], idx, cr), None))
                break
            err = max(float(numpy.max(numpy.abs(U[:, :, i] -
                      scipy.linalg.expm(K * ((s + i * m) * dt))))) for i in range(L))
            worst = max(worst, err)
            for (j, Uold, copy_) in held:
                if not numpy.array_equal(Uold, copy_):
                    viol.append(("propagation-matrix/earlier-result-changed-by-later-request",
                                 "%s: the matrix returned for request #%d changed when request "
                                 "#%d was served" % (case["gen"], j, idx), None))
                    held = []
                    break
            held.append((idx, U, numpy.array(U, copy=True)))
            if not numpy.isfinite(err) or err > 1e-9:
                viol.append(("propagation-matrix/depends-on-earlier-requests/%s" % gk,
                             "%s: request #%d (start index %d, stride %d, length %d) on a "
                             "propagator that already served %r differs from expm(K t) by %g"
                             % (case["gen"], idx, s, m, L, case["subs"][:idx], err),
                             {"err": err}))
                break
            if idx % 2 == 0:
                p0 = numpy.eye(n)[0]
                pops = prop.propagate(p0.copy())
                if abs(pops[-1].sum() - 1.0) > 1e-10:
                    viol.append(("propagate/sum-not-conserved", "after matrix requests", None))
        return {"nontrivial": len(case["subs"]) > 1, "violations": _dedup(viol),
                "outcome": [case["gen"], "seq", case["order"], case.get("corr"), Nt, dt,
                            round(worst, 12)]}
    # propagation matrix on a sub axis
    prop = PopulationPropagator(ta, RateMatrix(data=K.copy()))
    s, m, L = case["sub"]
    sub = qr.TimeAxis(t0 + s * dt, L, m * dt)
    if not sub.is_subset_of(ta):
        # a sub axis made of grid points must be recognised
        viol.append(("subaxis/compatible-axis-not-recognised",
                     "TimeAxis(%g,%d,%g) not accepted as subset of TimeAxis(%g,%d,%g)"
                     % (t0 + s * dt, L, m * dt, t0, Nt, dt), None))
        return {"nontrivial": True, "violations": viol, "outcome": ["not-subset", case["sub"]]}
    U = prop.get_PropagationMatrix(sub)
    if U.shape != (n, n, L):
        viol.append(("propagation-matrix/shape", "%r" % (U.shape,), None))
        return {"nontrivial": True, "violations": viol, "outcome": "shape"}
    worst = 0.0
    for i in range(L):
        ref = scipy.linalg.expm(K * ((s + i * m) * dt))
        err = float(numpy.max(numpy.abs(U[:, :, i] - ref)))
        worst = max(worst, err)
    if not numpy.isfinite(worst) or worst > 1e-9:
        shift = "shifted-start" if s else "same-start"
        viol.append(("propagation-matrix/differs-from-exponential/%s/%s" % (gk, shift),
                     "%s: U on sub-axis (start index %d, stride %d, length %d) of TimeAxis(%g,%d,%g) "
                     "differs from expm(K t) by %g" % (case["gen"], s, m, L, t0, Nt, dt, worst),
                     {"err": worst}))
    return {"nontrivial": m > 1 or s > 0, "violations": viol,
            "outcome": [case["gen"], case["sub"], Nt, dt, round(worst, 12)]}


def _dedup(v):
    seen, out = set(), []
    for x in v:
        if x[0] not in seen:
            seen.add(x[0])
            out.append(x)
    return out


def grid_cases(tier):
    cs = []
    # the last three: steps that are not dyadic fractions (quotients of commensurate steps are
    # then not exact in floating point)
    axes = [(20, 1.0, 0.0), (21, 5.0, 0.0), (20, 0.5, 10.0), (25, 0.7, 0.0), (25, 0.1, 0.0),
            (25, 0.3, 0.0), (300, 4.0, 0.0),      # this one runs into equilibrium
            (20, 1.0, 0.5), (25, 0.1, 0.05), (20, 1.0, -0.3)]   # start not a multiple of the step
    if tier == "thorough":
        axes += [(101, 1.0, 0.0), (50, 2.0, -20.0), (33, 0.25, 3.0)]
    for g in GENERATORS:
        for (Nt, dt, t0) in axes:
            for as_rm in (True, False):
                cs.append({"kind": "propagate", "gen": g, "Nt": Nt, "dt": dt, "t0": t0,
                           "as_rm": as_rm})
            smax = Nt - 1
            subs = []
            for m in range(1, 5):
                for s in (0, 1, 2):
                    L = (Nt - 1 - s) // m + 1
                    if L >= 2:
                        subs.append([s, m, min(L, 4)])
            for order, lst in (("ascending", subs), ("descending", subs[::-1]),
                               ("interleaved", subs[::2] + subs[1::2])):
                for corr in ([-1], [2, -1], [0, 1, -1]):
                    cs.append({"kind": "useq", "gen": g, "Nt": Nt, "dt": dt, "t0": t0,
                               "subs": lst, "order": order, "corr": corr})
            if tier == "thorough":
                import itertools
                for a, b in itertools.permutations(subs, 2):
                    cs.append({"kind": "useq", "gen": g, "Nt": Nt, "dt": dt, "t0": t0,
                               "subs": [a, b], "order": "pair"})
            for m in range(1, (6 if tier == "quick" else 11)):
                for s in range(0, min(smax, 7 if tier == "quick" else 13)):
                    Lmax = (Nt - 1 - s) // m + 1
                    for L in sorted(set([2, 3, Lmax])):
                        if L >= 2 and s + (L - 1) * m <= Nt - 1:
                            cs.append({"kind": "umatrix", "gen": g, "Nt": Nt, "dt": dt,
                                       "t0": t0, "sub": [s, m, L]})
    return cs


def replay(case):
    if "history" in case:
        execute.init = case.get("init", "zeros")
        return execute(tuple(tuple(o) for o in case["history"]))["violations"]
    return eval_case(case)["violations"]


def run(run):
    run.rule = ("H: BFS over every set_rate((i,j),v) history, i,j in 0..2 (incl. diagonal), "
                "v in {0,0.5,2} (and, to a smaller depth, v in {0, 5e-9, 0.5, 0.5(1+1e-7)}: rates on "
                "scales differing by 1e8 and corrections of 1e-7 of a value), from a zero matrix and "
                "from a data-constructed matrix; stored numbers compared exactly. G: "
                "generator x time axis x {propagate all unit vectors in four containers and vectors whose "
                "sum is 3, 1/2, 4 (integers) and 3e-6 - the sum at every stored time must be the "
                "initial sum | propagation matrix on every "
                "sub-axis (start index, stride, length)}; non-trivial = an off-diagonal non-zero "
                "assignment / a proper sub-axis")
    run.assumptions = ["reference exponential: scipy.linalg.expm (Pade)",
                       "truncation bound n*sup||T^k||*sup||E^k||*||T-E|| of the order-4 expansion, "
                       "computed per case; factor 2 allowed"]
    depth = 4 if run.tier == "quick" else 7
    for init, vals, dep in (("zeros", VALS, depth), ("data", VALS, depth),
                            ("zeros", VALS_SCALES, 3 if run.tier == "quick" else 5),
                            ("data", VALS_SCALES, 3 if run.tier == "quick" else 5)):
        execute.init = init
        execute.ops = _ops(vals)
        n0 = len(run.viol)
        run_bfs(run, execute, dep, cap_s=20 if run.tier == "quick" else 300,
                section="H-set_rate-histories-from-" + init
                + ("" if vals is VALS else "-values-on-different-scales"))
        for j in range(n0, len(run.viol)):
            k, what, case, det = run.viol[j]
            case = dict(case or {})
            case["init"] = init
            run.viol[j] = (k, what, case, det)
    run_grid(run, grid_cases(run.tier), eval_case, section="G-dynamics",
             cap_s=30 if run.tier == "quick" else 400)
    run.bounds = {"set_rate_depth": depth, "generators": list(GENERATORS),
                  "set_rate_depth_values_on_different_scales": 3 if run.tier == "quick" else 5,
                  "set_rate_values": [VALS, VALS_SCALES],
                  "initial_population_sums": [1.0, 3.0, 0.5, 4.0, "n*1e-6"]}
