#!/bin/sh
# Offline setup: import quantarhei once (creates ~/.quantarhei deterministically before any
# worker forks) and byte-compile nothing else. Checks always import /repo's working tree.
cd "$(dirname "$0")" || exit 1
export OMP_NUM_THREADS=1 MPLBACKEND=Agg PYTHONWARNINGS=ignore
/venv/bin/python -c "
import io,sys,contextlib
with contextlib.redirect_stdout(io.StringIO()):
    import quantarhei
print('quantarhei', quantarhei.Manager().version, 'from', quantarhei.__file__)
" || exit 1
mkdir -p evidence replays
exit 0
